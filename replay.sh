#!/bin/bash
# replay.sh <harness> <Test>: replay the newest .fail in the dev build dir with a trace
D=$(ls -d /tmp/verif-build-*); cd $D/w
F=$(ls -t testdata/rapid/$2/*.fail | head -1)
VERIF_REPLAY=1 VERIF_TRACE_FILE=$D/w/tr.json ../bin/$1.test -test.run "^$2\$" -rapid.failfile $F > replay.txt 2>&1
python3 - <<PY
import json
d=json.load(open('$D/w/tr.json'))
print(d['tag'], d['message'][:800])
print(json.dumps(d.get('plan'),indent=0)[:3000])
for l in d.get('decisions',[])[-${3:-60}:]:
    if 'writes' in l or 'call' in l or 'FAIL' in l or '${4:-xx}' in l: print(l[:400])
PY
