package hx

import (
	"bytes"
	"errors"
	"fmt"
	"io"
	"os"
	"time"

	"github.com/gdamore/tcell/v2"
	"verif.local/simrt"
)

// Call is one entry of the fake Tty's ordered call log.
type Call struct {
	Kind string // Start Stop Drain Close NotifyResize NotifyResize(nil) WindowSize Read Write
	G    string // simulated goroutine that made the call
	N    int
	Err  bool
	At   int // index of the call
}

// Tty is a tcell.Tty whose every behaviour is decided by the simulator.
type Tty struct {
	S    *simrt.Sim
	W, H int

	pending []byte
	bounds  []int // lengths of the upcoming reads (FeedChunks)
	sink    bytes.Buffer
	// ReadErr, if set, is returned by the first Read that finds no pending
	// data after ErrAfter more bytes have been delivered.
	ReadErr  error
	ErrAfter int
	errFired bool

	Started  bool
	Drained  bool
	Closed   bool
	Starts   int
	cb       func()
	lateCb   func() // callback captured before the last NotifyResize(nil)
	Log      []Call
	OnWrite  func(g string, b []byte)
	WriteOut int // total bytes written

	// faults
	StartFailAt int  // fail the n-th Start (1-based); 0 = never
	WinSizeFail bool // WindowSize returns an error while set
	WriteFail   bool // Write returns an error while set
	DrainErrs   int  // the next n Drains return an error (after waking the reader)
	// WriteDelay: every Write takes that much simulated time; SlowWrites
	// counts the writes that have started waiting.
	WriteDelay time.Duration
	SlowWrites int
	// DrainOnce: Drain does not make reads fail from then on (as a read
	// deadline does); it wakes the reader once - the next Read, blocked now
	// or entered later, returns (0, nil) - and does some more work before it
	// returns.  "Ensures that the reader will wake up appropriately if it
	// was blocked" is all the Tty contract asks of Drain.
	DrainOnce    bool
	FailWrites   int // the next n Writes fail with nothing written
	ShortWrite   int // the next Write longer than this accepts only this many bytes, then fails (0 = off)
	OnFault      func(kind string)
	LastUnsent   []byte // the bytes the last faulted Write did not accept
	Polling      bool   // polling personality: Read returns 0,nil periodically; Drain is a no-op
	ZeroReads    int    // number of upcoming reads that return 0,nil
	Faults       FaultCounts
	MaxReadChunk int

	IOAfterStop []string // I/O calls made between Stop and the next Start
}

func NewTty(s *simrt.Sim, w, h int) *Tty {
	return &Tty{S: s, W: w, H: h}
}

func (t *Tty) who() string {
	if g := t.S.Running(); g != nil {
		return g.Name
	}
	return "driver"
}

func (t *Tty) log(kind string, n int, err bool) {
	t.Log = append(t.Log, Call{Kind: kind, G: t.who(), N: n, Err: err, At: len(t.Log)})
	if !t.Started && !t.Closed {
		switch kind {
		case "Read", "Write":
			if t.Starts > 0 {
				t.IOAfterStop = append(t.IOAfterStop, kind+" by "+t.who())
			}
		}
	}
}

// Feed makes bytes available to Read (the terminal sends input).
func (t *Tty) Feed(b []byte) { t.pending = append(t.pending, b...) }

// FeedChunks adds input whose read boundaries are fixed: each chunk is
// returned by one Read (or several, if the reader's buffer is smaller),
// never merged with the next.
func (t *Tty) FeedChunks(chunks [][]byte) {
	if len(t.pending) > 0 && len(t.bounds) == 0 {
		t.bounds = append(t.bounds, len(t.pending))
	}
	for _, c := range chunks {
		if len(c) > 0 {
			t.pending = append(t.pending, c...)
			t.bounds = append(t.bounds, len(c))
		}
	}
}

// Discard drops the input not yet read (a flush of the input queue).
func (t *Tty) Discard() { t.pending, t.bounds = nil, nil }

// Pending returns the number of bytes not yet read.
func (t *Tty) Pending() int { return len(t.pending) }

// Resize changes the terminal size; the callback is NOT invoked (the
// stimulus actor calls FireResize when it decides the signal arrives).
func (t *Tty) Resize(w, h int) { t.W, t.H = w, h }

// FireResize invokes the registered resize callback, if any.
func (t *Tty) FireResize() bool {
	if t.cb != nil {
		t.cb()
		return true
	}
	return false
}

// FireLateResize invokes a callback that was registered before the most
// recent NotifyResize(nil): legal for a signal handler already in flight.
func (t *Tty) FireLateResize() bool {
	if t.lateCb != nil {
		t.Faults.Inc("late_resize_cb")
		t.lateCb()
		return true
	}
	return false
}

var ErrInjected = errors.New("injected tty failure")

func (t *Tty) Start() error {
	simrt.Yield("tty.Start")
	t.Starts++
	if t.StartFailAt == t.Starts {
		t.Faults.Inc("start_fail")
		t.log("Start", 0, true)
		return ErrInjected
	}
	t.Started = true
	t.Drained = false
	t.log("Start", 0, false)
	return nil
}

func (t *Tty) Stop() error {
	simrt.Yield("tty.Stop")
	t.log("Stop", 0, false)
	t.Started = false
	return nil
}

func (t *Tty) Drain() error {
	simrt.Yield("tty.Drain")
	t.log("Drain", 0, false)
	if t.Polling {
		t.Faults.Inc("drain_noop")
		return nil
	}
	if t.DrainOnce {
		t.ZeroReads++
		t.Faults.Inc("drain_wakes_once")
		simrt.Yield("tty.Drain(after wake-up)")
		simrt.Yield("tty.Drain(after wake-up)")
		return nil
	}
	t.Drained = true
	if t.DrainErrs > 0 {
		// the reader is woken, but the call reports an error (EINTR...)
		t.DrainErrs--
		t.Faults.Inc("drain_error")
		return ErrInjected
	}
	return nil
}

func (t *Tty) Close() error {
	simrt.Yield("tty.Close")
	t.log("Close", 0, false)
	t.Closed = true
	return nil
}

func (t *Tty) NotifyResize(cb func()) {
	simrt.Yield("tty.NotifyResize")
	if cb == nil {
		t.log("NotifyResize(nil)", 0, false)
		if t.cb != nil {
			t.lateCb = t.cb
		}
	} else {
		t.log("NotifyResize", 0, false)
	}
	t.cb = cb
}

func (t *Tty) WindowSize() (tcell.WindowSize, error) {
	simrt.Yield("tty.WindowSize")
	if t.WinSizeFail {
		t.Faults.Inc("winsize_fail")
		t.log("WindowSize", 0, true)
		return tcell.WindowSize{}, ErrInjected
	}
	t.log("WindowSize", 0, false)
	return tcell.WindowSize{Width: t.W, Height: t.H}, nil
}

func (t *Tty) Read(b []byte) (int, error) {
	if t.Polling {
		// a polling reader: wakes up by itself every 10 simulated ms
		if len(t.pending) == 0 && !t.Closed && !(t.ReadErr != nil && t.ErrAfter <= 0) {
			simrt.Sleep("tty.Read(poll)", 10*1000*1000)
			if len(t.pending) == 0 {
				t.log("Read", 0, false)
				return 0, nil
			}
		}
	}
	simrt.Wait("tty.Read", func() bool {
		return len(t.pending) > 0 || t.Drained || t.Closed || t.ZeroReads > 0 ||
			(t.ReadErr != nil && t.ErrAfter <= 0)
	})
	if t.ZeroReads > 0 && (len(t.pending) == 0 || t.S.Chooser().IO(2) == 1) {
		t.ZeroReads--
		t.Faults.Inc("read_zero")
		t.log("Read", 0, false)
		return 0, nil
	}
	if t.Drained || t.Closed {
		// /dev/tty with an expired read deadline fails at once, data or not
		t.log("Read", 0, true)
		return 0, os.ErrDeadlineExceeded
	}
	if len(t.pending) > 0 && !(t.ReadErr != nil && t.ErrAfter <= 0) {
		max := len(t.pending)
		if max > len(b) {
			max = len(b)
		}
		if t.MaxReadChunk > 0 && max > t.MaxReadChunk {
			max = t.MaxReadChunk
		}
		if t.ReadErr != nil && max > t.ErrAfter {
			max = t.ErrAfter
		}
		n := max - t.S.Chooser().IO(max)
		if len(t.bounds) > 0 {
			// preset read boundaries (FeedChunks): this read ends at the next one
			n = max
			if n > t.bounds[0] {
				n = t.bounds[0]
			}
			t.bounds[0] -= n
			if t.bounds[0] == 0 {
				t.bounds = t.bounds[1:]
			}
		}
		if n < len(t.pending) {
			t.Faults.Inc("read_split")
		}
		// (copied by the standard library, which a -race build instruments:
		// the store into the caller's buffer is then visible to the detector)
		// (through io.ReadFull, so that the copy is made by the library's own
		// compiled code and not by a body inlined into this package)
		_, _ = io.ReadFull(bytes.NewReader(t.pending[:n]), b[:n])
		t.pending = t.pending[n:]
		if t.ReadErr != nil {
			t.ErrAfter -= n
		}
		t.log("Read", n, false)
		return n, nil
	}
	// injected error
	t.Faults.Inc("read_error")
	t.errFired = true
	err := t.ReadErr
	t.ReadErr = nil
	t.log("Read", 0, true)
	return 0, err
}

func (t *Tty) Write(b []byte) (int, error) {
	simrt.Yield("tty.Write")
	if t.WriteDelay > 0 {
		// a slow line (flow control, a full pty buffer): the write takes time
		t.SlowWrites++
		t.Faults.Inc("write_slow")
		simrt.Sleep("tty.Write(slow)", t.WriteDelay)
	}
	if t.WriteFail {
		t.Faults.Inc("write_fail")
		t.log("Write", 0, true)
		return 0, ErrInjected
	}
	if t.FailWrites > 0 {
		t.FailWrites--
		t.LastUnsent = append([]byte(nil), b...)
		t.Faults.Inc("write_fail")
		t.log("Write", 0, true)
		if t.OnFault != nil {
			t.OnFault("write_fail")
		}
		return 0, ErrInjected
	}
	if t.ShortWrite > 0 && len(b) > t.ShortWrite && !t.Closed {
		k := t.ShortWrite
		t.ShortWrite = 0
		t.Faults.Inc("write_short")
		t.log("Write", k, true)
		t.WriteOut += k
		if t.OnWrite != nil {
			t.OnWrite(t.who(), b[:k])
		}
		t.LastUnsent = append([]byte(nil), b[k:]...)
		if t.OnFault != nil {
			t.OnFault("write_short")
		}
		return k, ErrInjected
	}
	if t.Closed {
		// a closed descriptor: the bytes go nowhere
		t.log("Write", 0, true)
		return 0, os.ErrClosed
	}
	t.log("Write", len(b), false)
	t.WriteOut += len(b)
	// (the terminal reads the caller's buffer: done by the library's compiled
	// code, so that a -race build sees the read)
	t.sink.Reset()
	_, _ = io.Copy(&t.sink, bytes.NewReader(b))
	if t.S.TraceOn {
		t.S.Note(fmt.Sprintf("%s writes %q", t.who(), b))
	}
	if t.OnWrite != nil {
		t.OnWrite(t.who(), b)
	}
	return len(b), nil
}

// FaultCounts counts fault firings by name.  It is deliberately not a map:
// it is bumped from simulated goroutines, and in a -race build map
// operations are visible to the detector whoever performs them.
type FaultCounts struct {
	names []string
	vals  []int
}

// Inc bumps the counter for name.
func (f *FaultCounts) Inc(name string) {
	for i, n := range f.names {
		if n == name {
			f.vals[i]++
			return
		}
	}
	f.names = append(f.names, name)
	f.vals = append(f.vals, 1)
}

// Get returns the counter for name.
func (f *FaultCounts) Get(name string) int {
	for i, n := range f.names {
		if n == name {
			return f.vals[i]
		}
	}
	return 0
}

// Map returns the counters as a map (driver side).
func (f *FaultCounts) Map() map[string]int {
	m := map[string]int{}
	for i, n := range f.names {
		m[n] = f.vals[i]
	}
	return m
}
