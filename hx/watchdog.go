package hx

import (
	"fmt"
	"os"
	"runtime"
	"sync/atomic"
	"time"
)

// The watchdog guards against a simulated goroutine that never reaches its
// next decision point (a busy loop or an un-instrumented blocking call in
// the code under test).  It runs on real time, is armed per run, and on
// expiry dumps all stacks and exits with status 3; verifctl classifies the
// dump (tcell frames on the running goroutine = liveness violation,
// anything else = harness trouble).

var (
	wdArmed   int64 // unix nanos of the arming instant; 0 = disarmed
	wdStarted int32
	wdWhat    atomic.Value
	// WatchdogLimit is the real time one run may take.
	WatchdogLimit = 240 * time.Second
)

// Arm starts the watchdog for one run.
func Arm(what string) {
	wdWhat.Store(what)
	atomic.StoreInt64(&wdArmed, time.Now().UnixNano())
	if atomic.CompareAndSwapInt32(&wdStarted, 0, 1) {
		go func() {
			for {
				time.Sleep(500 * time.Millisecond)
				a := atomic.LoadInt64(&wdArmed)
				if a != 0 && time.Now().UnixNano()-a > int64(WatchdogLimit) {
					buf := make([]byte, 1<<20)
					n := runtime.Stack(buf, true)
					w, _ := wdWhat.Load().(string)
					fmt.Fprintf(os.Stdout, "\nWATCHDOG: run %q made no progress for %v of real time\n%s\nWATCHDOG-END\n", w, WatchdogLimit, buf[:n])
					St.Flush()
					os.Exit(3)
				}
			}
		}()
	}
}

// Disarm stops the watchdog.
func Disarm() { atomic.StoreInt64(&wdArmed, 0) }
