package hx

import (
	"fmt"
	"os"
	"runtime"
	"sync/atomic"
	"syscall"
	"time"
)

// cpuNanos returns the CPU time (user+system) this process has consumed.
func cpuNanos() int64 {
	var ru syscall.Rusage
	if err := syscall.Getrusage(syscall.RUSAGE_SELF, &ru); err != nil {
		return 0
	}
	return ru.Utime.Nano() + ru.Stime.Nano()
}

var wdCPU int64 // CPU time at the arming instant

// The watchdog guards against a simulated goroutine that never reaches its
// next decision point (a busy loop or an un-instrumented blocking call in
// the code under test).  It runs on real time, is armed per run, and on
// expiry dumps all stacks and exits with status 3; verifctl classifies the
// dump (tcell frames on the running goroutine = liveness violation,
// anything else = harness trouble).

var (
	wdArmed   int64 // unix nanos of the arming instant; 0 = disarmed
	wdStarted int32
	wdWhat    atomic.Value
	// WatchdogLimit is the real time one run may take.
	WatchdogLimit = 240 * time.Second
)

// Arm starts the watchdog for one run.
func Arm(what string) {
	wdWhat.Store(what)
	atomic.StoreInt64(&wdCPU, cpuNanos())
	atomic.StoreInt64(&wdArmed, time.Now().UnixNano())
	if atomic.CompareAndSwapInt32(&wdStarted, 0, 1) {
		go func() {
			for {
				time.Sleep(500 * time.Millisecond)
				a := atomic.LoadInt64(&wdArmed)
				// a run is stuck only if it has also burnt CPU for half that
				// long: a machine stall or a frozen VM advances the wall clock
				// but not the CPU time, and must not look like a busy loop
				if a != 0 && time.Now().UnixNano()-a > int64(WatchdogLimit) && cpuNanos()-atomic.LoadInt64(&wdCPU) > int64(WatchdogLimit)/2 {
					buf := make([]byte, 1<<20)
					n := runtime.Stack(buf, true)
					w, _ := wdWhat.Load().(string)
					fmt.Fprintf(os.Stdout, "\nWATCHDOG: run %q made no progress for %v of real time\n%s\nWATCHDOG-END\n", w, WatchdogLimit, buf[:n])
					St.Flush()
					os.Exit(3)
				}
			}
		}()
	}
}

// Disarm stops the watchdog.
func Disarm() { atomic.StoreInt64(&wdArmed, 0) }
