//go:build !verifwasm

// Package hx holds what the harnesses share: terminal-entry snapshots, the
// fake Tty, run statistics and the rapid generators for choice streams.
package hx

import (
	"fmt"
	"os"
	"sort"
	"sync"

	"github.com/gdamore/tcell/v2/terminfo"
	_ "github.com/gdamore/tcell/v2/terminfo/base"
	_ "github.com/gdamore/tcell/v2/terminfo/extended"
)

var (
	termOnce sync.Once
	pristine []*terminfo.Terminfo // value snapshots taken before any lookup
	byName   map[string]*terminfo.Terminfo
	allNames []string
)

func loadTerms() {
	termOnce.Do(func() {
		for _, k := range []string{"COLORTERM", "TCELL_TRUECOLOR"} {
			os.Unsetenv(k)
		}
		byName = map[string]*terminfo.Terminfo{}
		for _, t := range terminfo.VerifAll() {
			cp := *t
			cp.Aliases = append([]string(nil), t.Aliases...)
			pristine = append(pristine, &cp)
			byName[cp.Name] = &cp
			for _, a := range cp.Aliases {
				byName[a] = &cp
			}
		}
		allNames = terminfo.VerifNames()
	})
}

// TermNames returns the primary names of all built-in entries, sorted.
func TermNames() []string {
	loadTerms()
	var out []string
	for _, t := range pristine {
		out = append(out, t.Name)
	}
	sort.Strings(out)
	return out
}

// PristineColors is the colour count of a built-in entry as the database
// ships it (before any lookup had a chance to touch the entry).
func PristineColors(name string) int {
	loadTerms()
	if p := byName[name]; p != nil {
		return p.Colors
	}
	return 0
}

// ScratchColorEntry registers a private copy of a built-in entry under a
// unique scratch name ending in "-color" and returns it together with the
// base of that name: a later lookup of base+"-256color" makes the library
// fabricate the 256-colour variant from it (by amending this very object).
func ScratchColorEntry(name string) (*terminfo.Terminfo, string) {
	loadTerms()
	p := byName[name]
	if p == nil {
		return nil, ""
	}
	cp := *p
	scratchSeq++
	base := fmt.Sprintf("verifcolor%d", scratchSeq)
	cp.Name = base + "-color"
	cp.Aliases = nil
	terminfo.AddTerminfo(&cp)
	return &cp, base
}

var scratchSeq int

// AllNames returns every registered name and alias.
func AllNames() []string { loadTerms(); return allNames }

// Term returns a fresh private copy of a built-in entry (nil if unknown), as
// the library's own lookup would hand it out; the shared database is never
// modified.
func Term(name string, truecolor bool) *terminfo.Terminfo {
	loadTerms()
	p := byName[name]
	if p == nil {
		return nil
	}
	key := p.Name
	if truecolor {
		key += "|tc"
	}
	if tc, ok := tcCache[key]; ok {
		cp := *tc
		cp.Aliases = append([]string(nil), p.Aliases...)
		return &cp
	}
	cp := *p
	orig := cp.Name
	// every entry goes through the library's own lookup (which adds the
	// direct-colour strings for entries flagged TrueColor, or for a
	// -truecolor name), on a private copy registered under a scratch name
	// that cannot collide with any -256color/-color variant.
	cp.Name = fmt.Sprintf("verifscratch%d", len(tcCache))
	cp.Aliases = nil
	terminfo.AddTerminfo(&cp)
	look := cp.Name
	if truecolor {
		look += "-truecolor"
	}
	got, err := terminfo.LookupTerminfo(look)
	if err != nil || got != &cp {
		panic(fmt.Sprintf("hx.Term: lookup failed for %s: err=%v got=%p want=%p", name, err, got, &cp))
	}
	cp.Name = orig
	cp.Aliases = append([]string(nil), p.Aliases...)
	keep := cp
	tcCache[key] = &keep
	return &cp
}

var tcCache = map[string]*terminfo.Terminfo{}
