// Package hx holds what the harnesses share: terminal-entry snapshots, the
// fake Tty, run statistics and the rapid generators for choice streams.
package hx

import (
	"os"
	"sort"
	"strings"
	"sync"

	"github.com/gdamore/tcell/v2/terminfo"
	_ "github.com/gdamore/tcell/v2/terminfo/base"
	_ "github.com/gdamore/tcell/v2/terminfo/extended"
)

var (
	termOnce sync.Once
	pristine []*terminfo.Terminfo // value snapshots taken before any lookup
	byName   map[string]*terminfo.Terminfo
	allNames []string
)

func loadTerms() {
	termOnce.Do(func() {
		for _, k := range []string{"COLORTERM", "TCELL_TRUECOLOR"} {
			os.Unsetenv(k)
		}
		byName = map[string]*terminfo.Terminfo{}
		for _, t := range terminfo.VerifAll() {
			cp := *t
			cp.Aliases = append([]string(nil), t.Aliases...)
			pristine = append(pristine, &cp)
			byName[cp.Name] = &cp
			for _, a := range cp.Aliases {
				byName[a] = &cp
			}
		}
		allNames = terminfo.VerifNames()
	})
}

// TermNames returns the primary names of all built-in entries, sorted.
func TermNames() []string {
	loadTerms()
	var out []string
	for _, t := range pristine {
		out = append(out, t.Name)
	}
	sort.Strings(out)
	return out
}

// AllNames returns every registered name and alias.
func AllNames() []string { loadTerms(); return allNames }

// Term returns a fresh private copy of a built-in entry (nil if unknown).
// With truecolor, the library's own lookup synthesises the direct-colour
// strings on a private copy registered under a scratch name, so the shared
// database is never modified.
func Term(name string, truecolor bool) *terminfo.Terminfo {
	loadTerms()
	p := byName[name]
	if p == nil {
		return nil
	}
	cp := *p
	cp.Aliases = append([]string(nil), p.Aliases...)
	if !truecolor {
		return &cp
	}
	orig := cp.Name
	cp.Name = "verifscratch-" + strings.ReplaceAll(orig, "-truecolor", "")
	cp.Aliases = nil
	terminfo.AddTerminfo(&cp)
	got, err := terminfo.LookupTerminfo(cp.Name + "-truecolor")
	if err != nil || got != &cp {
		panic("hx.Term: truecolor synthesis failed for " + name)
	}
	cp.Name = orig
	cp.Aliases = append([]string(nil), p.Aliases...)
	return &cp
}
