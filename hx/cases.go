package hx

import (
	"encoding/json"
	"fmt"
	"os"
	"path/filepath"
	"strconv"
	"verif.local/simrt"
)

// Enumerated (non-rapid) checks report a failing case as a small JSON file
// that the same test replays when VERIF_CASE points at it.

// CaseFile is the replay artefact of an enumerated check.
type CaseFile struct {
	Property string                 `json:"property"`
	Test     string                 `json:"test"`
	Tag      string                 `json:"tag"`
	Message  string                 `json:"message"`
	Case     map[string]interface{} `json:"case"`
}

var caseCount int

// ReportCase writes a case file (at most 20 per process) and returns the
// text for the VIOLATION line.
func ReportCase(property, test, tag, msg string, c map[string]interface{}) string {
	dir := os.Getenv("VERIF_STATS_DIR")
	if dir != "" && caseCount < 20 && os.Getenv("VERIF_CASE") == "" {
		caseCount++
		cf := CaseFile{Property: property, Test: test, Tag: tag, Message: msg, Case: c}
		b, _ := json.MarshalIndent(cf, "", " ")
		_ = os.WriteFile(filepath.Join(dir, fmt.Sprintf("case-%d-%d.json", os.Getpid(), caseCount)), b, 0o644)
	}
	if tf := os.Getenv("VERIF_TRACE_FILE"); tf != "" {
		cf := map[string]interface{}{"property": property, "tag": tag, "message": msg, "case": c, "signature": "enumerated"}
		b, _ := json.MarshalIndent(cf, "", " ")
		_ = os.WriteFile(tf, b, 0o644)
	}
	return fmt.Sprintf("VIOLATION %s: %s", tag, msg)
}

// LoadCase returns the case to replay, if any.
func LoadCase() *CaseFile {
	p := os.Getenv("VERIF_CASE")
	if p == "" {
		return nil
	}
	b, err := os.ReadFile(p)
	if err != nil {
		panic(err)
	}
	var cf CaseFile
	if err := json.Unmarshal(b, &cf); err != nil {
		panic(err)
	}
	return &cf
}

// Worker returns this process's shard index and the shard count.
func Worker() (int, int) {
	i, _ := strconv.Atoi(os.Getenv("VERIF_WORKER"))
	n, _ := strconv.Atoi(os.Getenv("VERIF_NWORKERS"))
	if n <= 0 {
		n = 1
	}
	return i, n
}

// Seed returns VERIF_SEED (default 1).
func Seed() uint64 {
	n, err := strconv.ParseUint(os.Getenv("VERIF_SEED"), 10, 64)
	if err != nil {
		return 1
	}
	return n
}

// Thorough reports whether the thorough tier was requested.
func Thorough() bool { return os.Getenv("VERIF_TIER") == "thorough" }

// Rng is a small deterministic generator for enumerated checks' sampling.
type Rng struct{ x uint64 }

func NewRng(seed uint64) *Rng { return &Rng{x: seed*0x9e3779b97f4a7c15 + 0x1234567} }
func (r *Rng) Next() uint64 {
	r.x ^= r.x << 13
	r.x ^= r.x >> 7
	r.x ^= r.x << 17
	return r.x
}
func (r *Rng) Intn(n int) int { return int(r.Next() % uint64(n)) }

// RandomChooser builds pre-drawn choice streams of length n from r, for the
// enumerated parts of a check that are not driven by rapid (one PRNG value
// still decides everything; a stream that runs out means "default choice").
func RandomChooser(r *Rng, n int) *simrt.Chooser {
	ch := &simrt.Chooser{}
	for i := 0; i < n; i++ {
		ch.SchedS = append(ch.SchedS, uint16(r.Next()))
		ch.SelS = append(ch.SelS, uint8(r.Next()))
		ch.IOS = append(ch.IOS, 0) // reads are not split behind the caller's back
	}
	return ch
}
