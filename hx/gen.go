package hx

import (
	"fmt"
	"hash/fnv"
	"time"

	"pgregory.net/rapid"
	"verif.local/simrt"
)

// DrawChooser draws the choice streams of one run.  All draws happen here,
// before the simulation starts; the empty streams are "no pre-emption,
// lowest-id goroutine, first ready case, whole reads".
func DrawChooser(t *rapid.T, maxSched int) *simrt.Chooser {
	c := &simrt.Chooser{}
	c.SchedS = rapid.SliceOfN(rapid.Uint16Range(0, 30), 0, maxSched).Draw(t, "sched")
	c.SelS = rapid.SliceOfN(rapid.Uint8Range(0, 7), 0, 80).Draw(t, "sel")
	c.IOS = rapid.SliceOfN(rapid.Uint16Range(0, 255), 0, 80).Draw(t, "io")
	return c
}

// Failure is a property violation found in a run: Tag names the clause.
type Failure struct {
	Tag string
	Msg string
}

func (f *Failure) Error() string { return f.Tag + ": " + f.Msg }

// Ms is a shorthand.
func Ms(n int) time.Duration { return time.Duration(n) * time.Millisecond }

// Fingerprint hashes a workload description; harnesses mix it into the
// schedule signature so that "distinct" counts distinct (workload, faults,
// schedule) triples, not schedules alone.
func Fingerprint(v ...interface{}) string {
	h := fnv.New64a()
	fmt.Fprintf(h, "%+v", v)
	return fmt.Sprintf("wl:%016x", h.Sum64())
}
