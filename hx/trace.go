package hx

import (
	"encoding/json"
	"fmt"
	"os"
)

// WriteTrace writes the human-readable companion of a replay file when the
// process was started by `verifctl replay` (VERIF_TRACE_FILE set).
func WriteTrace(property string, f *Failure, plan interface{}, trace []string, blocked []string, sig uint64) {
	path := os.Getenv("VERIF_TRACE_FILE")
	if path == "" {
		return
	}
	out := map[string]interface{}{
		"property":  property,
		"tag":       f.Tag,
		"message":   f.Msg,
		"signature": fmt.Sprintf("%x", sig),
		"plan":      plan,
		"blocked":   blocked,
		"decisions": trace,
	}
	b, err := json.MarshalIndent(out, "", " ")
	if err != nil {
		b = []byte(fmt.Sprintf("{\"error\": %q}", err.Error()))
	}
	_ = os.WriteFile(path, b, 0o644)
}
