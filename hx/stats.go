package hx

import (
	"encoding/json"
	"fmt"
	"os"
	"path/filepath"
	"sort"
	"strconv"
	"time"

	"verif.local/simrt"
)

// Stats is what one worker process measured; verifctl aggregates the files.
type Stats struct {
	Property   string                 `json:"property"`
	Runs       int                    `json:"runs"`
	Nontrivial int                    `json:"nontrivial"`
	Decisions  int                    `json:"decisions"`
	Switches   int                    `json:"switches"`
	Preempts   int                    `json:"preempts"`
	SimTimeNs  int64                  `json:"sim_time_ns"`
	Faults     map[string]int         `json:"faults"`
	Probes     map[string]int         `json:"probes"`
	Enumerated map[string]int         `json:"enumerated"`
	Sigs       []string               `json:"sigs"`    // distinct non-trivial schedule signatures (hex)
	AllSigs    int                    `json:"allsigs"` // distinct signatures over all runs
	Samples    []interface{}          `json:"samples"`
	Notes      []string               `json:"notes"`
	WallS      float64                `json:"wall_s"`
	Skipped    int                    `json:"skipped_after_deadline"`
	Extra      map[string]interface{} `json:"extra"`

	sigset map[uint64]bool
	allset map[uint64]bool
	start  time.Time
}

var St = &Stats{
	Faults: map[string]int{}, Probes: map[string]int{}, Enumerated: map[string]int{},
	Extra:  map[string]interface{}{},
	sigset: map[uint64]bool{}, allset: map[uint64]bool{}, start: time.Now(),
}

var deadline time.Time

// sigLog, when VERIF_SIGLOG is set, receives one line per simulated run
// (schedule signature, decisions, simulated time): the determinism
// self-test diffs these files between processes.
var sigLog *os.File

func init() {
	if p := os.Getenv("VERIF_SIGLOG"); p != "" {
		sigLog, _ = os.Create(p)
	}
	if v := os.Getenv("VERIF_DEADLINE"); v != "" {
		if n, err := strconv.ParseInt(v, 10, 64); err == nil {
			deadline = time.Unix(n, 0)
		}
	}
}

// PastDeadline reports whether the worker's wall-clock budget is used up.
func PastDeadline() bool {
	if !deadline.IsZero() && time.Now().After(deadline) {
		St.Skipped++
		return true
	}
	return false
}

// Replaying reports whether this process replays a recorded failure.
func Replaying() bool { return os.Getenv("VERIF_REPLAY") != "" }

// Record folds one finished simulation into the statistics.
func (st *Stats) Record(s *simrt.Sim, faults map[string]int, sample func() interface{}) {
	st.Runs++
	st.Decisions += s.Steps
	st.Switches += s.Switches
	st.Preempts += s.Preempts
	st.SimTimeNs += int64(s.Now())
	nf := 0
	for k, v := range faults {
		if v > 0 {
			st.Faults[k] += v
			nf += v
		}
	}
	for k, v := range s.Counters {
		st.Probes[k] += v
	}
	h := s.Hash()
	st.allset[h] = true
	if sigLog != nil {
		fmt.Fprintf(sigLog, "%016x %d %d\n", h, s.Steps, int64(s.Now()))
	}
	if nf > 0 || s.Preempts >= 1 || s.Switches >= 4 {
		st.Nontrivial++
		if !st.sigset[h] {
			st.sigset[h] = true
			if len(st.Samples) < 3 && sample != nil {
				st.Samples = append(st.Samples, sample())
			}
		}
	}
}

// Probe bumps a named rare-branch counter.
func (st *Stats) Probe(name string, n int) { st.Probes[name] += n }

// Flush writes the statistics file for this process.
func (st *Stats) Flush() {
	dir := os.Getenv("VERIF_STATS_DIR")
	if dir == "" {
		return
	}
	st.WallS = time.Since(st.start).Seconds()
	st.Sigs = st.Sigs[:0]
	for h := range st.sigset {
		st.Sigs = append(st.Sigs, strconv.FormatUint(h, 16))
	}
	sort.Strings(st.Sigs)
	st.AllSigs = len(st.allset)
	b, _ := json.Marshal(st)
	name := filepath.Join(dir, fmt.Sprintf("stats-%d.json", os.Getpid()))
	_ = os.WriteFile(name, b, 0o644)
}
