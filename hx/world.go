//go:build !verifwasm

package hx

import (
	"fmt"
	"os"
	"strings"

	"github.com/gdamore/tcell/v2"
	"github.com/gdamore/tcell/v2/terminfo"
	"pgregory.net/rapid"
	"verif.local/simrt"
)

// Config is the per-run configuration every tscreen harness draws.
type Config struct {
	Term      string
	TrueColor bool
	W, H      int
	Go123     bool
	GapScale  int
	Polling   bool
	AltScreen bool
	Locale    string // the locale ("" = en_US.UTF-8)
	// LocaleVia: which POSIX variable carries it.  0: LC_ALL; 1: LC_CTYPE
	// (LC_ALL unset); 2: LANG (LC_ALL, LC_CTYPE unset); 3: LC_CTYPE with
	// LC_ALL set but empty; 4: LANG with LC_ALL and LC_CTYPE set but empty
	// (an empty value counts as unset); 5: as 1 with LANG=C as the decoy.
	LocaleVia int
	// LocaleForm: how the locale name is spelt around its codeset.  0: as
	// given; 1: "C.<codeset>"; 2: "POSIX.<codeset>"; 3: with an "@euro"
	// modifier after the codeset; 4: "POSIX.<codeset>@euro".  Only applied to
	// names of the form language.codeset (glibc ships C.UTF-8; a codeset
	// named explicitly on the C/POSIX locale is that codeset).
	LocaleForm int
	MapMode    int
	MapSeed    uint64
}

func (c Config) String() string {
	return fmt.Sprintf("term=%s tc=%v %dx%d go123=%v gap=%d polling=%v alt=%v lc=%q via=%d map=%d",
		c.Term, c.TrueColor, c.W, c.H, c.Go123, c.GapScale, c.Polling, c.AltScreen, SpellLocale(c.Locale, c.LocaleForm), c.LocaleVia, c.MapMode)
}

// SpellLocale rewrites language.codeset according to Config.LocaleForm.
func SpellLocale(lc string, form int) string {
	i := strings.IndexByte(lc, '.')
	if i < 0 || form == 0 || strings.IndexByte(lc, '@') >= 0 {
		return lc
	}
	cs := lc[i+1:]
	switch form {
	case 1:
		return "C." + cs
	case 2:
		return "POSIX." + cs
	case 3:
		return lc + "@euro"
	case 4:
		return "POSIX." + cs + "@euro"
	}
	return lc
}

// DrawConfig draws a configuration; terms lists candidate entry names.
func DrawConfig(t *rapid.T, terms []string, maxW, maxH int) Config {
	c := Config{}
	c.Term = rapid.SampledFrom(terms).Draw(t, "term")
	c.TrueColor = rapid.Bool().Draw(t, "truecolor")
	c.W = rapid.IntRange(1, maxW).Draw(t, "w")
	c.H = rapid.IntRange(1, maxH).Draw(t, "h")
	c.Go123 = rapid.Bool().Draw(t, "go123timer")
	c.GapScale = rapid.SampledFrom([]int{1, 1, 2, 5, 20}).Draw(t, "gapscale")
	c.AltScreen = rapid.Bool().Draw(t, "altscreen")
	c.LocaleForm = rapid.SampledFrom([]int{0, 0, 0, 1, 2, 3, 4}).Draw(t, "localeform")
	return c
}

// World is one simulated tscreen with its fake tty.
type World struct {
	Cfg  Config
	S    *simrt.Sim
	Tty  *Tty
	Ti   *terminfo.Terminfo
	Scr  tcell.Screen
	Fail *Failure
}

// Failf records the first property violation of the run.
func (w *World) Failf(tag, format string, args ...interface{}) {
	if w.Fail == nil {
		w.Fail = &Failure{Tag: tag, Msg: fmt.Sprintf(format, args...)}
		w.S.Note("FAIL " + tag)
	}
}

// TiEdit, when set, edits the private copy of the terminal description the
// next worlds are built from (an application that customises an entry and
// hands it to NewTerminfoScreenFromTtyTerminfo under its old name).
var TiEdit func(*terminfo.Terminfo)

// NewWorld creates the simulation, the fake tty and the screen (not yet
// initialised: Init must run on a simulated goroutine).
func NewWorld(cfg Config, ch *simrt.Chooser) (*World, error) {
	ch.MapMode, ch.MapSeed = cfg.MapMode, cfg.MapSeed
	lc := cfg.Locale
	if lc == "" {
		lc = "en_US.UTF-8"
	}
	lc = SpellLocale(lc, cfg.LocaleForm)
	os.Unsetenv("LC_ALL")
	os.Unsetenv("LC_CTYPE")
	os.Unsetenv("LANG")
	// a lower-priority variable naming another character set must lose
	decoy := "en_US.UTF-8"
	if strings.Contains(strings.ToUpper(lc), "UTF-8") || strings.Contains(strings.ToUpper(lc), "UTF8") {
		decoy = "en_US.ISO8859-1"
	}
	if cfg.LocaleVia >= 3 && decoy == "en_US.UTF-8" {
		// (another decoy: the plain C locale, in which high bytes are no text at all)
		decoy = "C"
	}
	switch cfg.LocaleVia {
	case 1:
		os.Setenv("LC_CTYPE", lc)
		os.Setenv("LANG", decoy)
	case 2:
		os.Setenv("LANG", lc)
	case 3:
		os.Setenv("LC_ALL", "")
		os.Setenv("LC_CTYPE", lc)
		os.Setenv("LANG", decoy)
	case 4:
		os.Setenv("LC_ALL", "")
		os.Setenv("LC_CTYPE", "")
		os.Setenv("LANG", lc)
	case 5:
		os.Setenv("LC_CTYPE", lc)
		os.Setenv("LANG", decoy)
	default:
		os.Setenv("LC_ALL", lc)
		os.Setenv("LC_CTYPE", decoy)
		os.Setenv("LANG", "C")
	}
	os.Unsetenv("LINES")
	os.Unsetenv("COLUMNS")
	os.Unsetenv("COLORTERM")
	os.Unsetenv("TCELL_TRUECOLOR")
	if cfg.AltScreen {
		os.Unsetenv("TCELL_ALTSCREEN")
	} else {
		os.Setenv("TCELL_ALTSCREEN", "disable")
	}
	ti := Term(cfg.Term, cfg.TrueColor)
	if ti == nil {
		return nil, fmt.Errorf("unknown terminal %q", cfg.Term)
	}
	if TiEdit != nil {
		// the application's own (edited) copy of the description
		TiEdit(ti)
	}
	s := simrt.New(ch)
	s.Go123Timer = cfg.Go123
	if cfg.GapScale > 0 {
		s.GapScale = cfg.GapScale
	}
	w := &World{Cfg: cfg, S: s, Ti: ti}
	w.Tty = NewTty(s, cfg.W, cfg.H)
	w.Tty.Polling = cfg.Polling
	scr, err := tcell.NewTerminfoScreenFromTtyTerminfo(w.Tty, ti)
	if err != nil {
		s.Shutdown()
		return nil, err
	}
	w.Scr = scr
	return w, nil
}

// Close poisons the simulation; an error means a goroutine is wedged in
// un-instrumented blocking code (harness trouble or a real hang).
func (w *World) Close() error { return w.S.Shutdown() }

// Panics returns a description of every panic in a simulated goroutine.
func (w *World) Panics() []string {
	var out []string
	for _, g := range w.S.Goroutines() {
		if g.Panic != nil {
			out = append(out, fmt.Sprintf("%s: %v\n%s", g.Name, g.Panic, trimStack(g.PanicStack)))
		}
	}
	return out
}

func trimStack(s string) string {
	lines := strings.Split(s, "\n")
	var keep []string
	for _, l := range lines {
		if strings.Contains(l, "tcell") || strings.Contains(l, "verif.local/h") {
			keep = append(keep, strings.TrimSpace(l))
		}
		if len(keep) > 12 {
			break
		}
	}
	return strings.Join(keep, "\n")
}

// LibGoroutines returns the goroutines started by tcell itself.
func (w *World) LibGoroutines() []*simrt.G {
	var out []*simrt.G
	for _, g := range w.S.Goroutines() {
		if strings.HasPrefix(g.Name, "tscreen.go:") || strings.HasPrefix(g.Name, "simulation.go:") {
			out = append(out, g)
		}
	}
	return out
}
