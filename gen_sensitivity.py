#!/usr/bin/env python3
"""gen_sensitivity.py: rewrite the table between the SENSITIVITY markers of DESIGN.md from
seeded/RESULTS.json and regressions/RESULTS.json (both written by `verifctl mutants`)."""
import json, os, re
V = os.path.dirname(os.path.abspath(__file__))
rows = []
for d, label in (("seeded", "sub-agent change"), ("regressions", "reverted fix")):
    p = os.path.join(V, d, "RESULTS.json")
    if not os.path.exists(p):
        continue
    res = json.load(open(p))
    for name in sorted(res):
        if not os.path.isdir(os.path.join(V, d, name)):
            continue
        e = res[name]
        what = ""
        sp = os.path.join(V, d, name, "subject.txt")
        rp = os.path.join(V, d, name, "README.md")
        if os.path.exists(sp):
            what = open(sp).read().strip()
        elif os.path.exists(rp):
            for l in open(rp):
                l = l.strip().lstrip("# ").strip()
                if l:
                    what = re.sub(r"^Mutant\s*\S*\s*[-–—:]\s*", "", l); break
        mp = os.path.join(V, d, name, "meta.json")
        meta = json.load(open(mp)) if os.path.exists(mp) else {}
        oor = meta.get("out_of_reach")
        # a change filed under one property whose broken clause turned out to be another's
        # (meta.json says why in "note"): the other property's check must catch it
        moved = [a for a in meta.get("also", []) if meta.get("note") and e["checks"].get(a, {}).get("caught_by")]
        for chk, c in sorted(e["checks"].items()):
            tier = c.get("caught_by") or ("out of reach: stubbed component" if oor else "MISSED")
            if tier == "MISSED" and meta.get("masked_by"):
                tier = "masked by the later fix %s (the reverse alone has no visible effect any more)" % meta["masked_by"]
            if tier == "MISSED" and moved and chk == e.get("property"):
                tier = "not this property's clause (see meta.json): caught under " + ", ".join(moved)
            tags = ", ".join(sorted(set((c.get(tier) or c.get("quick") or {}).get("tags", []))))
            rows.append("| %s/%s | %s | %s | %s | %s |" % (d, name, what.replace("|", "/")[:110], chk, tier, tags))
tab = "| change | what it does | check | caught at | oracle tags |\n|---|---|---|---|---|\n" + "\n".join(rows) + "\n"
p = os.path.join(V, "DESIGN.md")
s = open(p).read()
a, b = "<!-- SENSITIVITY:BEGIN -->\n", "<!-- SENSITIVITY:END -->"
if a not in s:
    s = s.rstrip("\n") + "\n\n" + a + b + "\n"
s = s[:s.index(a) + len(a)] + tab + s[s.index(b):]
open(p, "w").write(s)
missed = [r for r in rows if "MISSED" in r]
print("%d out of reach" % len([r for r in rows if "out of reach" in r]))
print("%d rows, %d missed" % (len(rows), len(missed)))
for r in missed:
    print(r)
