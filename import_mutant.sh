#!/bin/bash
# import_mutant.sh <source _mutants/mN dir> <seeded name> <property> [also...]
# Confirms in a scratch worktree of /repo that the change compiles, passes the existing suite,
# and that its demonstration fails with it and passes without it; then files it under seeded/.
set -u
SRC=$1; NAME=$2; PROP=$3; shift 3; ALSO="$*"
export GOFLAGS=-mod=mod GOPROXY=off GOSUMDB=off GOTOOLCHAIN=local
WT=$(mktemp -d /tmp/confirm-XXXX); rmdir $WT
git -C /repo worktree add -q $WT HEAD || exit 2
cleanup() { git -C /repo worktree remove --force $WT; }
trap cleanup EXIT
cd $WT
DEMO=$(ls $SRC/*_test.go | head -1)
DEST=$(grep -m1 -o "package [a-z]*" $DEMO | awk '{print $2}')
case $DEST in tcell) DIR=.;; terminfo) DIR=terminfo;; views) DIR=views;; *) DIR=.;; esac
suite() { go build ./... && go test -vet=off -count=1 ./... 2>&1 | grep -v "no test files" | grep -v "^ok" ; }
echo "== unmodified: demo must pass"
cp $DEMO $DIR/zz_demo_test.go
RUNPAT=$(grep -o "^func Test[A-Za-z0-9_]*" $DIR/zz_demo_test.go | sed 's/func //' | paste -sd'|')
if go test -vet=off -count=1 -run "^($RUNPAT)\$" ./$DIR > /tmp/confirm-base.txt 2>&1; then BASE=pass; else BASE=FAIL; fi
echo "   demo on unmodified tree: $BASE"
rm $DIR/zz_demo_test.go
echo "== mutant: build + existing suite"
if ! git apply $SRC/patch.diff; then echo "patch does not apply"; exit 1; fi
OUT=$(suite); if [ -n "$OUT" ]; then echo "$OUT" | head; go test -vet=off -count=1 ./terminfo/ >/dev/null 2>&1 && OUT=$(suite); fi
if [ -n "$OUT" ]; then SUITE=FAIL; else SUITE=pass; fi
echo "   existing suite with mutant: $SUITE"
cp $DEMO $DIR/zz_demo_test.go
if go test -vet=off -count=1 -run "^($RUNPAT)\$" ./$DIR > /tmp/confirm-mut.txt 2>&1; then MUT=pass; else MUT=FAIL; fi
echo "   demo with mutant: $MUT (expected FAIL)"
if [ $BASE = pass ] && [ $SUITE = pass ] && [ $MUT = FAIL ]; then
  mkdir -p /verif/seeded/$NAME
  cp $SRC/patch.diff /verif/seeded/$NAME/patch.diff
  cp $DEMO /verif/seeded/$NAME/demo_test.go
  cp $SRC/README.md /verif/seeded/$NAME/README.md 2>/dev/null
  python3 - "$NAME" "$PROP" "$ALSO" "$DIR" "$RUNPAT" <<'PY'
import json,sys,subprocess
name,prop,also,d,pat=sys.argv[1:6]
readme=open('/verif/seeded/%s/README.md'%name).read() if True else ''
meta={"property":prop,"also":[a for a in also.split() if a],
 "needs": readme[:1500],
 "confirmed": {"base_commit": subprocess.run(["git","-C","/repo","rev-parse","--short","HEAD"],capture_output=True,text=True).stdout.strip(),
   "ran": ["git apply patch.diff in a scratch worktree of /repo", "go build ./... && go test -vet=off -count=1 ./... (existing suite passes with the change)",
           "go test -run '^(%s)$' ./%s with demo_test.go copied in: passes without the change, fails with it" % (pat,d)]},
 "origin": "fresh sub-agent given only the property text and a scratch worktree"}
json.dump(meta,open('/verif/seeded/%s/meta.json'%name,'w'),indent=1)
PY
  echo "KEPT as seeded/$NAME"
else
  echo "REJECTED"
  tail -5 /tmp/confirm-base.txt /tmp/confirm-mut.txt
fi
