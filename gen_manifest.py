#!/usr/bin/env python3
"""Regenerates MANIFEST.json from the table below (single source of truth)."""
import json, os, subprocess
V = os.path.dirname(os.path.abspath(__file__))

def commits():
    out = subprocess.run(["git", "-C", "/repo", "log", "--format=%H %s"], capture_output=True, text=True).stdout
    return [l for l in out.splitlines()]

CLAIMED = {
 "C05": dict(design="DESIGN.md §4 C05",
   text="Seeded search over simulated executions of the real tscreen input pipeline and baseScreen event API: every interleaving decision between the input reader, the main loop, posters, consumers (PollEvent or ChannelEvents) and the terminal, every ready-select choice, read partition, poller stall and resize is drawn from the seed; the recorded ledger of causes and deliveries is checked for exactly-once, order, PostEvent result <=> delivery, HasPendingEvent, channel close and When() bounds after a final drain; PostEvent must never park (it enqueues or reports a full queue at once); the final Fini finds the screen running, suspended, or suspended after a Resume whose tty start failed, and must close the ChannelEvents channel / release PollEvent each time; one Suspend/Resume may occur in the application's script (events already queued and accepted posts survive it; undecoded input is dropped); the polling goroutine may also draw between polls (an event loop that also draws must never deadlock against the input pipeline); typed text may arrive in a legacy single- or double-byte locale. Sampling, not proof: a clean batch is evidence over the seeds run.",
   note="Trusted: the simulator (simrt) and the source instrumentation (simrewrite) preserve Go semantics (select among ready cases chosen by the simulator is a refinement of Go's random choice); expected events come from a token generator with independent decodings (xterm family only); fake Tty stands in for /dev/tty; Suspend/Resume excluded from C05 runs by design (C06 covers them).",
   technique="deterministic simulation: serialised seeded scheduler over instrumented source, fake tty, event ledger oracle, rapid shrinking"),
 "C06": dict(design="DESIGN.md §4 C06",
   text="Seeded search over simulated shutdown scenarios (Fini, double and overlapping Fini - whichever call returns first must find the tty stopped and closed and the library's goroutines gone -, Fini on a suspended screen and after a failed Resume, Suspend, Suspend/Resume cycles, Suspend/Resume/Fini racing each other) racing with input arrival, resizes, posters, pollers and drawing, with stalled pollers, full event/chunk queues and tty read errors. Because every blocking operation is mediated by the simulator, 'the caller never returns' is an exact deadlock verdict (nothing ready, no timer pending), not a timeout; busy loops are caught by a real-time watchdog and replayed by seed. Inertness after Fini and liveness after Resume are checked on the same runs.",
   note="Trusted: simrt/simrewrite as for C05; fake Tty models /dev/tty (Drain wakes the reader with a deadline error; in a sixth of the runs it instead wakes the reader once with an empty read, which is all the Tty contract asks); 'PollEvent returns nil at once' is read literally (a queued stale event after Fini is a violation).",
   technique="deterministic simulation with fault injection: exact wait-for-graph deadlock detection under a seeded scheduler; read-error, stall and resize faults; rapid shrinking"),
}

NA = {
 "C07": "pure function of (string, parameters); no stream, clock, fault, peer or second thread for a simulator to own (DESIGN.md §4 C07)",
 "C08": "sequential data structure without I/O, time or concurrency; its effects on the terminal are decided under C01/C13 (DESIGN.md §4 C08)",
 "C14": "static data and sequential lookups on a global map; the statement quantifies over lookup orders, not concurrent callers (DESIGN.md §4 C14)",
 "C16": "pure functions and constant tables; exhaustive enumeration is the right tool and is not simulation (DESIGN.md §4 C16)",
 "C20": "pure geometry over single-threaded call sequences (DESIGN.md §4 C20)",
}
PENDING = ["C01","C02","C03","C04","C09","C10","C11","C12","C13","C15","C17","C18","C19"]

def main():
    extra = {}
    p = os.path.join(V, "manifest_extra.json")
    if os.path.exists(p):
        extra = json.load(open(p))
    claimed = dict(CLAIMED)
    claimed.update(extra.get("claimed", {}))
    checks = []
    for pid in sorted(claimed):
        c = claimed[pid]
        checks.append({
            "property_id": pid,
            "quick_cmd": "./verifctl check %s --tier quick" % pid,
            "thorough_cmd": "./verifctl check %s --tier thorough" % pid,
            "evidence_file": "evidence/%s.json" % pid,
            "replay_cmd_template": "./verifctl replay {path}",
            "engine": "simrt",
            "level_claimed": {"category": "exploration", "text": c["text"], "design_ref": c["design"]},
            "level_note": c["note"],
            "technique": c["technique"],
        })
    na = [{"property_id": k, "reason": v} for k, v in sorted(NA.items())]
    for pid in PENDING:
        if pid not in claimed:
            na.append({"property_id": pid, "reason": "designed as claimable (DESIGN.md §4) but its check is not built yet in this tree; not claimed until it is"})
    fixes = [l.split()[0] for l in commits() if l.split(" ", 1)[1].startswith("fix:")]
    m = {
        "version": 1,
        "setup_cmd": "./setup.sh",
        "hooks": {
            "guard": "verif",
            "enable": "checks copy $VERIF_REPO (default /repo) to a temp dir, instrument the copy with simrewrite (sync/time import swap, channel/select/go/map-range mediation), add overlay/tcell/*verif_export.go (build tag verif) and build the harness with -tags verif; /repo itself carries no hook",
            "baseline_off_cmd": "cd /repo && go test -vet=off -count=1 ./...",
            "source_commits": [],
            "add_only": True,
        },
        "engines": [
            {"name": "simrt", "path": "simrt/", "serves_properties": sorted(claimed),
             "kind_free_text": "deterministic serialised scheduler + simulated clock + sync/time shims; simrewrite instruments a scratch copy of the repository; rapid v1.3.0 is the sole choice source (seeded search, shrinking, .fail replay files)"},
        ],
        "checks": checks,
        "not_applicable": sorted(na, key=lambda x: x["property_id"]),
        "notes": "fix: commits in /repo (genuine defects found by these checks): " + ", ".join(fixes) + ". See known_findings.json and DESIGN.md §8.",
    }
    json.dump(m, open(os.path.join(V, "MANIFEST.json"), "w"), indent=1)
    print("MANIFEST.json written:", len(checks), "checks,", len(na), "not applicable")

main()
