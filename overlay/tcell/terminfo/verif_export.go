//go:build verif

package terminfo

import "sort"

// VerifAll lists every registered entry (one per distinct *Terminfo),
// sorted by name.  Exists only in the instrumented scratch copy.
func VerifAll() []*Terminfo {
	dblock.Lock()
	defer dblock.Unlock()
	seen := map[*Terminfo]bool{}
	var out []*Terminfo
	for _, t := range terminfos {
		if !seen[t] {
			seen[t] = true
			out = append(out, t)
		}
	}
	sort.Slice(out, func(i, j int) bool { return out[i].Name < out[j].Name })
	return out
}

// VerifNames lists every registered name and alias, sorted.
func VerifNames() []string {
	dblock.Lock()
	defer dblock.Unlock()
	var out []string
	for n := range terminfos {
		out = append(out, n)
	}
	sort.Strings(out)
	return out
}
