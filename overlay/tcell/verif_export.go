//go:build verif && !(js && wasm)

package tcell

import "verif.local/simrt"

// Read-only accessors for the verification harness.  This file exists only
// in the instrumented scratch copy, never in the repository.

// VerifKey is one entry of a terminfo screen's key table.
type VerifKey struct {
	Key Key
	Mod ModMask
}

func verifT(s Screen) *tScreen {
	if b, ok := s.(*baseScreen); ok {
		if t, ok := b.screenImpl.(*tScreen); ok {
			return t
		}
	}
	return nil
}

// VerifKeyTable returns a copy of the escape-sequence table of a terminfo screen.
func VerifKeyTable(s Screen) map[string]VerifKey {
	t := verifT(s)
	if t == nil {
		return nil
	}
	out := make(map[string]VerifKey, len(t.keycodes))
	for k, v := range t.keycodes {
		out[k] = VerifKey{v.key, v.mod}
	}
	return out
}

// VerifKeyInternal reports the internal pseudo keys used for paste brackets.
func VerifKeyInternal() (pasteStart, pasteEnd Key) { return keyPasteStart, keyPasteEnd }

// VerifEventQ returns the event queue of any screen built on baseScreen.
func VerifEventQ(s Screen) chan Event {
	if b, ok := s.(*baseScreen); ok {
		return b.EventQ()
	}
	return nil
}

// VerifKeychan returns the raw input chunk queue (nil before Init).
func VerifKeychan(s Screen) chan []byte {
	if t := verifT(s); t != nil {
		return t.keychan
	}
	return nil
}

// VerifLockOwner returns the simulated goroutine holding the screen lock.
func VerifLockOwner(s Screen) *simrt.G {
	if t := verifT(s); t != nil {
		return t.Mutex.SimOwner()
	}
	if b, ok := s.(*baseScreen); ok {
		if ss, ok := b.screenImpl.(*simscreen); ok {
			return ss.Mutex.SimOwner()
		}
	}
	return nil
}

// VerifRunning reports the running flag of a terminfo screen.
func VerifRunning(s Screen) bool {
	if t := verifT(s); t != nil {
		return t.running
	}
	return false
}

// VerifEncodings lists the names in the character-set registry, sorted.
func VerifEncodings() []string {
	encodingLk.Lock()
	defer encodingLk.Unlock()
	var out []string
	for n := range encodings {
		out = append(out, n)
	}
	for i := 1; i < len(out); i++ {
		for j := i; j > 0 && out[j] < out[j-1]; j-- {
			out[j], out[j-1] = out[j-1], out[j]
		}
	}
	return out
}

// VerifTouchRunes reads every element of a slice the library handed to the
// application (for example the combining runes returned by GetContent).  It
// is compiled with the library, so that in a -race build the read is visible
// to the detector like any application code's would be.
//
//go:noinline
func VerifTouchRunes(r []rune) (n int) {
	for _, x := range r {
		n += int(x)
	}
	return n
}

// VerifTouchBytes is VerifTouchRunes for byte slices.
//
//go:noinline
func VerifTouchBytes(b []byte) (n int) {
	for _, x := range b {
		n += int(x)
	}
	return n
}
