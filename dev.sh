#!/bin/bash
# dev helper: dev.sh <harness> <Test> <checks> <seed> [race]
set -e
rm -rf /tmp/verif-build-*
if [ "$5" = race ]; then /verif/verifctl build $1 --race | tail -2; else /verif/verifctl build $1 | tail -2; fi
D=$(ls -d /tmp/verif-build-*); mkdir -p $D/w; cd $D/w
export GOMAXPROCS=2
export GORACE="log_path=$D/w/race halt_on_error=0 suppress_equal_stacks=0 suppress_equal_addresses=0" VERIF_RACE_LOG=$D/w/race
( time timeout -s QUIT ${TMO:-300} ../bin/$1.test -test.run "^$2\$" -rapid.checks $3 -rapid.seed $4 > out.txt 2>&1 ) 2>&1 | grep real
grep -v "rapid\] draw" out.txt | tail -${TAILN:-15}
