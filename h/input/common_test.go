// Package input is the deterministic-simulation harness for the input path
// of the terminfo screen: C02 (chunking independence), C03 (key tables),
// C11 (text, paste, focus) and C12 (mouse reports).  Bytes go through the
// real pipeline: fake Tty.Read -> inputLoop -> keychan -> mainLoop (escape
// timer on the simulated clock) -> eventQ -> PollEvent.
package input

import (
	"fmt"
	"os"
	"reflect"
	"strings"
	"testing"
	"time"

	"github.com/gdamore/tcell/v2"
	"github.com/gdamore/tcell/v2/terminfo"
	"verif.local/hx"
	"verif.local/simrt"
)

func TestMain(m *testing.M) {
	code := m.Run()
	hx.St.Flush()
	os.Exit(code)
}

// iw is a world with a poller that records every non-resize event.
type iw struct {
	*hx.World
	evs    []string
	raw    []tcell.Event
	inited bool
	err    error
	stall  bool
	// burstResize: feedBurst also resizes the window while the burst sits unpolled
	burstResize bool
	touch       bool
}

func describe(ev tcell.Event) string {
	switch e := ev.(type) {
	case *tcell.EventKey:
		if e.Key() == tcell.KeyRune {
			return fmt.Sprintf("key:Rune:%d:%d", e.Rune(), e.Modifiers())
		}
		return fmt.Sprintf("key:%d:%d", e.Key(), e.Modifiers())
	case *tcell.EventMouse:
		x, y := e.Position()
		return fmt.Sprintf("mouse:%d,%d:%d:%d", x, y, e.Buttons(), e.Modifiers())
	case *tcell.EventPaste:
		return fmt.Sprintf("paste:%v", e.Start())
	case *tcell.EventFocus:
		return fmt.Sprintf("focus:%v", e.Focused)
	case *tcell.EventClipboard:
		return fmt.Sprintf("clip:%x", e.Data())
	case *tcell.EventResize:
		return "resize"
	case *tcell.EventError:
		return "error"
	case nil:
		return "nil"
	}
	return fmt.Sprintf("%T", ev)
}

func keyDesc(k tcell.Key, mod tcell.ModMask) string { return fmt.Sprintf("key:%d:%d", k, mod) }
func runeDesc(r rune, mod tcell.ModMask) string     { return fmt.Sprintf("key:Rune:%d:%d", r, mod) }

// iwTouch: the poller of the next worlds also calls Size() and
// HasPendingEvent() before every PollEvent.
var iwTouch bool

func newIW(cfg hx.Config, ch *simrt.Chooser) (*iw, error) {
	world, err := hx.NewWorld(cfg, ch)
	if err != nil {
		return nil, err
	}
	w := &iw{World: world, touch: iwTouch}
	w.S.TraceOn = hx.Replaying()
	w.S.Spawn("app", func() {
		w.err = w.Scr.Init()
		w.inited = true
	})
	w.S.Spawn("poller", func() {
		simrt.Wait("wait-init", func() bool { return w.inited })
		if w.err != nil {
			return
		}
		for {
			if w.touch {
				// what applications do between two polls: look at the screen
				w.Scr.Size()
				w.Scr.HasPendingEvent()
			}
			ev := w.Scr.PollEvent()
			if ev == nil {
				return
			}
			if _, ok := ev.(*tcell.EventResize); ok {
				continue
			}
			w.raw = append(w.raw, ev)
			w.evs = append(w.evs, describe(ev))
		}
	})
	st := w.S.RunUntil(func() bool { return w.inited }, 0)
	if st != simrt.Budget && !cfg.Polling {
		st = w.S.Run()
		if st != simrt.Quiescent {
			st = simrt.Budget
		}
	} else if st != simrt.Budget {
		st = w.S.RunUntil(nil, w.S.Now()+time.Millisecond)
	}
	if st == simrt.Budget || w.err != nil || !w.inited {
		w.Close()
		return nil, fmt.Errorf("init: status %v err %v", st, w.err)
	}
	return w, nil
}

// feedHold delivers bytes and lets the pipeline process them without the
// simulated clock moving (no escape timeout can expire).
func (w *iw) feedHold(b []byte) {
	w.Tty.Feed(b)
	if st := w.S.RunUntil(nil, w.S.Now()+w.holdFor()); st == simrt.Budget {
		w.stall = true
	}
}

// feedBurst delivers the chunks as consecutive reads while the application
// is not polling (the queues fill and the main loop falls behind the
// reader), optionally lets simulated time pass meanwhile, and then resumes
// polling with the clock held.  No escape timeout is due to the input
// itself: all of it has arrived before the first byte is looked at.
func (w *iw) feedBurst(chunks [][]byte, stallMs int) {
	p := w.S.Find("poller")
	w.S.Stall(p)
	w.Tty.FeedChunks(chunks)
	w.Tty.Faults.Inc("burst_unpolled")
	if st := w.S.RunUntil(nil, w.S.Now()+w.holdFor()); st == simrt.Budget {
		w.stall = true
	}
	if w.burstResize {
		// the window changes size while the queues are full: the resize event
		// may be dropped (it is, by design, when there is no room), the input
		// may not
		w.Tty.Resize(w.Tty.W+1, w.Tty.H)
		w.S.Spawn("winch", func() { w.Tty.FireResize() })
		w.Tty.Faults.Inc("resize")
		if st := w.S.RunUntil(nil, w.S.Now()+w.holdFor()); st == simrt.Budget {
			w.stall = true
		}
	}
	if stallMs > 0 {
		// the application stays away for stallMs: the clock moves on (and
		// timers fire) while whatever is blocked stays blocked
		w.S.Advance(hx.Ms(stallMs))
		if st := w.S.RunUntil(nil, w.S.Now()+w.holdFor()); st == simrt.Budget {
			w.stall = true
		}
	}
	w.S.Unstall(p)
	if st := w.S.RunUntil(nil, w.S.Now()+w.holdFor()); st == simrt.Budget {
		w.stall = true
	}
}

// runTo lets the simulation run until g has finished.  The clock is free to
// move as far as g itself needs (padding delays in the strings Suspend and
// Resume write), but not beyond.
func (w *iw) runTo(g *simrt.G) {
	if st := w.S.RunUntil(func() bool { return g.Done() }, 0); st == simrt.Budget {
		w.stall = true
	}
}

// holdFor is how far the clock may move while the pipeline digests what it
// was given: not at all, except that a polled tty's reader only looks every
// 10 ms (still far below the escape timeout).
func (w *iw) holdFor() time.Duration {
	if w.Cfg.Polling {
		return 11 * time.Millisecond
	}
	return 1
}

// settle runs to quiescence, letting timers expire.
func (w *iw) settle() {
	if w.Cfg.Polling {
		// a polling tty never goes quiet (its reader wakes up by itself):
		// half a simulated second is ten escape timeouts
		if st := w.S.RunUntil(nil, w.S.Now()+500*time.Millisecond); st == simrt.Budget {
			w.stall = true
		}
		return
	}
	if st := w.S.Run(); st == simrt.Budget {
		w.stall = true
	}
}

// take returns and clears the events recorded so far.
func (w *iw) take() []string {
	e := w.evs
	w.evs = nil
	w.raw = nil
	return e
}

func (w *iw) finish() (panics []string, err error) {
	panics = w.Panics()
	err = w.Close()
	return
}

// ---- independent expectations for key capabilities ----

type km struct {
	k tcell.Key
	m tcell.ModMask
}

// fieldKeys maps a Terminfo key field to the key and modifiers it stands for.
var fieldKeys = map[string]km{
	"KeyBackspace": {tcell.KeyBackspace, 0}, "KeyInsert": {tcell.KeyInsert, 0}, "KeyDelete": {tcell.KeyDelete, 0},
	"KeyHome": {tcell.KeyHome, 0}, "KeyEnd": {tcell.KeyEnd, 0}, "KeyHelp": {tcell.KeyHelp, 0},
	"KeyPgUp": {tcell.KeyPgUp, 0}, "KeyPgDn": {tcell.KeyPgDn, 0}, "KeyUp": {tcell.KeyUp, 0}, "KeyDown": {tcell.KeyDown, 0},
	"KeyLeft": {tcell.KeyLeft, 0}, "KeyRight": {tcell.KeyRight, 0}, "KeyBacktab": {tcell.KeyBacktab, 0},
	"KeyExit": {tcell.KeyExit, 0}, "KeyClear": {tcell.KeyClear, 0}, "KeyPrint": {tcell.KeyPrint, 0}, "KeyCancel": {tcell.KeyCancel, 0},
	"KeyShfRight": {tcell.KeyRight, tcell.ModShift}, "KeyShfLeft": {tcell.KeyLeft, tcell.ModShift},
	"KeyShfHome": {tcell.KeyHome, tcell.ModShift}, "KeyShfEnd": {tcell.KeyEnd, tcell.ModShift},
	"KeyShfInsert": {tcell.KeyInsert, tcell.ModShift}, "KeyShfDelete": {tcell.KeyDelete, tcell.ModShift},
	"KeyShfUp": {tcell.KeyUp, tcell.ModShift}, "KeyShfDown": {tcell.KeyDown, tcell.ModShift},
	"KeyShfPgUp": {tcell.KeyPgUp, tcell.ModShift}, "KeyShfPgDn": {tcell.KeyPgDn, tcell.ModShift},
	"KeyCtrlUp": {tcell.KeyUp, tcell.ModCtrl}, "KeyCtrlDown": {tcell.KeyDown, tcell.ModCtrl},
	"KeyCtrlRight": {tcell.KeyRight, tcell.ModCtrl}, "KeyCtrlLeft": {tcell.KeyLeft, tcell.ModCtrl},
	"KeyMetaUp": {tcell.KeyUp, tcell.ModMeta}, "KeyMetaDown": {tcell.KeyDown, tcell.ModMeta},
	"KeyMetaRight": {tcell.KeyRight, tcell.ModMeta}, "KeyMetaLeft": {tcell.KeyLeft, tcell.ModMeta},
	"KeyAltUp": {tcell.KeyUp, tcell.ModAlt}, "KeyAltDown": {tcell.KeyDown, tcell.ModAlt},
	"KeyAltRight": {tcell.KeyRight, tcell.ModAlt}, "KeyAltLeft": {tcell.KeyLeft, tcell.ModAlt},
	"KeyCtrlHome": {tcell.KeyHome, tcell.ModCtrl}, "KeyCtrlEnd": {tcell.KeyEnd, tcell.ModCtrl},
	"KeyMetaHome": {tcell.KeyHome, tcell.ModMeta}, "KeyMetaEnd": {tcell.KeyEnd, tcell.ModMeta},
	"KeyAltHome": {tcell.KeyHome, tcell.ModAlt}, "KeyAltEnd": {tcell.KeyEnd, tcell.ModAlt},
	"KeyAltShfUp": {tcell.KeyUp, tcell.ModAlt | tcell.ModShift}, "KeyAltShfDown": {tcell.KeyDown, tcell.ModAlt | tcell.ModShift},
	"KeyAltShfLeft": {tcell.KeyLeft, tcell.ModAlt | tcell.ModShift}, "KeyAltShfRight": {tcell.KeyRight, tcell.ModAlt | tcell.ModShift},
	"KeyMetaShfUp": {tcell.KeyUp, tcell.ModMeta | tcell.ModShift}, "KeyMetaShfDown": {tcell.KeyDown, tcell.ModMeta | tcell.ModShift},
	"KeyMetaShfLeft": {tcell.KeyLeft, tcell.ModMeta | tcell.ModShift}, "KeyMetaShfRight": {tcell.KeyRight, tcell.ModMeta | tcell.ModShift},
	"KeyCtrlShfUp": {tcell.KeyUp, tcell.ModCtrl | tcell.ModShift}, "KeyCtrlShfDown": {tcell.KeyDown, tcell.ModCtrl | tcell.ModShift},
	"KeyCtrlShfLeft": {tcell.KeyLeft, tcell.ModCtrl | tcell.ModShift}, "KeyCtrlShfRight": {tcell.KeyRight, tcell.ModCtrl | tcell.ModShift},
	"KeyCtrlShfHome": {tcell.KeyHome, tcell.ModCtrl | tcell.ModShift}, "KeyCtrlShfEnd": {tcell.KeyEnd, tcell.ModCtrl | tcell.ModShift},
	"KeyAltShfHome": {tcell.KeyHome, tcell.ModAlt | tcell.ModShift}, "KeyAltShfEnd": {tcell.KeyEnd, tcell.ModAlt | tcell.ModShift},
	"KeyMetaShfHome": {tcell.KeyHome, tcell.ModMeta | tcell.ModShift}, "KeyMetaShfEnd": {tcell.KeyEnd, tcell.ModMeta | tcell.ModShift},
}

func init() {
	for i := 1; i <= 64; i++ {
		fieldKeys[fmt.Sprintf("KeyF%d", i)] = km{tcell.KeyF1 + tcell.Key(i-1), 0}
	}
}

// xtermMods is xterm's modifier parameter encoding: param-1 is a bit set of
// 1 Shift, 2 Alt, 4 Ctrl, 8 Meta.
func xtermMods(param int) tcell.ModMask {
	b := param - 1
	var m tcell.ModMask
	if b&1 != 0 {
		m |= tcell.ModShift
	}
	if b&2 != 0 {
		m |= tcell.ModAlt
	}
	if b&4 != 0 {
		m |= tcell.ModCtrl
	}
	if b&8 != 0 {
		m |= tcell.ModMeta
	}
	return m
}

// keySeq is one defined key sequence with every (key, modifiers) reading
// the statement accepts for it.
type keySeq struct {
	Seq    string
	Fields []string
	Accept []km
	// Alias is set when, on an xterm-style entry, the sequence coincides
	// with xterm's modifier encoding of a base key: then only that reading
	// is accepted.
	Alias *km
}

// xtermBaseFields are the cursor, editing and function keys whose modified
// forms xterm generates.
var xtermBaseFields = []string{"KeyUp", "KeyDown", "KeyRight", "KeyLeft", "KeyInsert", "KeyDelete", "KeyPgUp", "KeyPgDn", "KeyHome", "KeyEnd",
	"KeyF1", "KeyF2", "KeyF3", "KeyF4", "KeyF5", "KeyF6", "KeyF7", "KeyF8", "KeyF9", "KeyF10", "KeyF11", "KeyF12"}

// xtermModified returns the sequence xterm sends for base sequence v with
// modifier parameter p ("" if v is of neither PC-style form).
func xtermModified(v string, p int) string {
	switch {
	case strings.HasPrefix(v, "\x1b[") && strings.HasSuffix(v, "~") && len(v) > 3:
		return v[:len(v)-1] + fmt.Sprintf(";%d~", p)
	case strings.HasPrefix(v, "\x1bO") && len(v) == 3:
		return fmt.Sprintf("\x1b[1;%d%s", p, v[2:])
	}
	return ""
}

// keySeqs lists every key sequence an entry defines, from the description
// alone (reflection over the Key* string fields).
func keySeqs(ti *terminfo.Terminfo) (list []*keySeq, xtermGen map[string]km) {
	bySeq := map[string]*keySeq{}
	rv := reflect.ValueOf(ti).Elem()
	rt := rv.Type()
	for i := 0; i < rt.NumField(); i++ {
		f := rt.Field(i)
		exp, ok := fieldKeys[f.Name]
		if !ok || f.Type.Kind() != reflect.String {
			continue
		}
		s := rv.Field(i).String()
		if s == "" {
			continue
		}
		ks := bySeq[s]
		if ks == nil {
			ks = &keySeq{Seq: s}
			bySeq[s] = ks
			list = append(list, ks)
		}
		ks.Fields = append(ks.Fields, f.Name)
		ks.Accept = append(ks.Accept, exp)
	}
	xtermGen = map[string]km{}
	if ti.Modifiers == terminfo.ModifiersXTerm {
		for _, fn := range xtermBaseFields {
			v := rv.FieldByName(fn).String()
			if v == "" {
				continue
			}
			for p := 2; p <= 16; p++ {
				if s := xtermModified(v, p); s != "" {
					if _, dup := xtermGen[s]; !dup {
						xtermGen[s] = km{fieldKeys[fn].k, xtermMods(p)}
					}
				}
			}
		}
		for _, ks := range list {
			if g, ok := xtermGen[ks.Seq]; ok {
				g := g
				ks.Alias = &g
			}
		}
	}
	return list, xtermGen
}

// accepts says whether a delivered event description is an allowed reading
// of the key sequence.
func (ks *keySeq) accepts(got string) bool {
	if ks.Seq == "\x7f" {
		return got == keyDesc(tcell.KeyBackspace2, 0)
	}
	if ks.Alias != nil {
		return got == keyDesc(ks.Alias.k, ks.Alias.m)
	}
	for _, a := range ks.Accept {
		if got == keyDesc(a.k, a.m) {
			return true
		}
	}
	if len(ks.Seq) == 1 && ks.Seq[0] < ' ' {
		return got == ctrlDesc(ks.Seq[0])
	}
	return false
}

// ctrlDesc is the event a single control byte stands for.
func ctrlDesc(b byte) string {
	switch tcell.Key(b) {
	case tcell.KeyBackspace, tcell.KeyTab, tcell.KeyEnter, tcell.KeyEsc:
		return keyDesc(tcell.Key(b), 0)
	}
	return keyDesc(tcell.Key(b), tcell.ModCtrl)
}

func (ks *keySeq) String() string {
	return fmt.Sprintf("%q (%s)", ks.Seq, strings.Join(ks.Fields, ","))
}

// caps is what the statement lets a harness know about a terminal's input
// side: whether mouse, paste and OSC 52 replies are understood.
type caps struct {
	mouse, paste, clip   bool
	pasteStart, pasteEnd string
}

func capsOf(ti *terminfo.Terminfo) caps {
	xt := strings.HasPrefix(ti.Name, "xterm") || ti.XTermLike
	c := caps{mouse: ti.Mouse != ""}
	switch {
	case ti.EnablePaste != "":
		c.paste = ti.PasteStart != "" && ti.PasteEnd != ""
		c.pasteStart, c.pasteEnd = ti.PasteStart, ti.PasteEnd
	case ti.Mouse != "" || xt:
		c.paste = true
		c.pasteStart, c.pasteEnd = "\x1b[200~", "\x1b[201~"
	}
	c.clip = xt
	return c
}
