package input

import (
	"bytes"
	"fmt"
	"strings"
	"sync"
	"testing"
	"unicode"
	"unicode/utf8"

	"github.com/gdamore/tcell/v2"
	tenc "github.com/gdamore/tcell/v2/encoding"
	"golang.org/x/text/encoding"
	"pgregory.net/rapid"
	"verif.local/hx"
	"verif.local/simrt"
)

// C11: typed and pasted text is delivered rune for rune, in order, in
// UTF-8 and in every stateless legacy character set of the registry,
// however the bytes are split across reads.

type charset struct {
	Name    string
	Enc     encoding.Encoding
	Members []rune // printable runes that round-trip through the charset
}

var (
	csOnce   sync.Once
	charsets []*charset
)

func stateful(name string) bool {
	n := strings.ToLower(name)
	return strings.Contains(n, "2022") || n == "gb2312" || strings.HasPrefix(n, "hz")
}

// loadCharsets discovers the registry and computes, with the x/text coders
// themselves (trusted base), which printable runes each charset can carry.
func loadCharsets() []*charset {
	csOnce.Do(func() {
		tenc.Register()
		seen := map[string]bool{}
		for _, name := range tcell.VerifEncodings() {
			if stateful(name) {
				continue
			}
			enc := tcell.GetEncoding(name)
			if enc == nil {
				continue
			}
			id := fmt.Sprintf("%T/%v", enc, enc)
			if seen[id] {
				continue
			}
			seen[id] = true
			cs := &charset{Name: name, Enc: enc}
			e, d := enc.NewEncoder(), enc.NewDecoder()
			for r := rune(0x20); r < 0x30000; r++ {
				if r == 0x7f || r == 0xfffd || !unicode.IsPrint(r) || (r >= 0xd800 && r < 0xe000) {
					continue
				}
				if r > 0xffff && !strings.Contains(strings.ToLower(name), "18030") && !strings.HasPrefix(strings.ToLower(name), "utf") {
					break
				}
				e.Reset()
				b, err := e.Bytes([]byte(string(r)))
				if err != nil || len(b) == 0 || (len(b) == 1 && b[0] == 0x1a) {
					continue
				}
				d.Reset()
				back, err := d.Bytes(b)
				if err != nil || string(back) != string(r) {
					continue
				}
				cs.Members = append(cs.Members, r)
			}
			if len(cs.Members) > 0 {
				charsets = append(charsets, cs)
			}
		}
	})
	return charsets
}

type c11plan struct {
	Cfg   hx.Config
	CS    *charset
	Text  []rune
	Paste bool
	Focus int // 0 none, 1 focus-in before, 2 focus-out after
	Cuts  []int
}

func encodeText(cs *charset, text []rune) []byte {
	e := cs.Enc.NewEncoder()
	var out []byte
	for _, r := range text {
		e.Reset()
		b, err := e.Bytes([]byte(string(r)))
		if err != nil {
			panic(err)
		}
		out = append(out, b...)
	}
	return out
}

// runC11 decodes one text through the pipeline and compares rune for rune.
// delivery: 0 = each read processed with the clock held; n > 0 = n ms of
// simulated time (less than the escape timeout) pass between reads; -1 / -n
// = all reads back to back while the application is not polling (n ms pass
// before it polls again).
// cycles: Suspend/Resume cycles the application goes through (after enabling
// bracketed paste, if it does) before the text arrives.
// via: which locale variable carries the character set (hx.Config.LocaleVia).
// readErr: one tty read fails before the text arrives (the application then
// restarts input with a Suspend/Resume cycle: cycles >= 1).
func runC11(cfg hx.Config, ch *simrt.Chooser, cs *charset, text []rune, paste bool, focus int, cuts []int, delivery int, cycles int, via int, readErr bool) (*hx.Failure, error) {
	cfg.Locale = "en_US." + cs.Name
	cfg.LocaleVia = via % 5
	cfg.LocaleForm = via / 5 // 0, or 3: language.codeset@modifier
	w, err := newIW(cfg, ch)
	if err != nil {
		return nil, err
	}
	cp := capsOf(w.Ti)
	w.S.Note(hx.Fingerprint(cfg, cs.Name, text, paste, focus, cuts, delivery, cycles, via, readErr))
	// The terminal side: it brackets a paste only while the application has
	// bracketed-paste mode switched on (the last h/l it was sent decides).
	pasteMode := false
	onSeq, offSeq := w.Ti.EnablePaste, w.Ti.DisablePaste
	if onSeq == "" {
		onSeq, offSeq = "\x1b[?2004h", "\x1b[?2004l"
	}
	var wrote []byte
	w.Tty.OnWrite = func(g string, b []byte) {
		wrote = append(wrote, b...)
		if len(wrote) > 4096 {
			wrote = wrote[len(wrote)-256:]
		}
		for len(wrote) > 0 {
			i, j := bytes.LastIndex(wrote, []byte(onSeq)), bytes.LastIndex(wrote, []byte(offSeq))
			if i < 0 && j < 0 {
				break
			}
			pasteMode = i > j
			if i > j {
				wrote = wrote[i+len(onSeq):]
			} else {
				wrote = wrote[j+len(offSeq):]
			}
		}
	}
	if readErr && cycles > 0 {
		w.Tty.ReadErr = hx.ErrInjected
		w.Tty.ErrAfter = 0
		w.settle()
		w.take()
	}
	if paste || cycles > 0 {
		var srErr error
		w.runTo(w.S.Spawn("app-modes", func() {
			if paste {
				w.Scr.EnablePaste()
			}
			for i := 0; i < cycles; i++ {
				_ = w.Scr.Suspend()
				if err := w.Scr.Resume(); err != nil {
					srErr = err
				}
			}
		}))
		if srErr != nil {
			return &hx.Failure{Tag: "C11/paste", Msg: "Resume failed: " + srErr.Error()}, w.Close()
		}
		if cycles > 0 {
			w.Tty.Faults.Inc("suspend_resume")
		}
	}
	var in []byte
	var want []string
	if focus == 1 {
		in = append(in, "\x1b[I"...)
		want = append(want, "focus:true")
	}
	if paste && cp.paste {
		// the application has enabled bracketed paste on a terminal that has
		// it: a paste must arrive bracketed
		want = append(want, "paste:true")
	}
	if pasteMode && cp.paste {
		in = append(in, cp.pasteStart...)
	}
	tb := encodeText(cs, text)
	if readErr && cycles == 0 && !paste && focus == 0 && len(text) >= 2 {
		// (re-using the flag for one more history) the first half of the
		// text is followed by the first byte(s) of a multi-byte character,
		// then the screen is suspended and resumed before any timeout: the
		// pending bytes are gone, the second half arrives clean
		h := len(text) / 2
		first, second := encodeText(cs, text[:h]), encodeText(cs, text[h:])
		var part []byte
		for _, m := range cs.Members {
			if e := encodeText(cs, []rune{m}); len(e) >= 2 {
				part = e[:len(e)-1]
				break
			}
		}
		if part != nil {
			w.feedHold(append(append([]byte(nil), first...), part...))
			w.runTo(w.S.Spawn("suspend-resume", func() {
				_ = w.Scr.Suspend()
				_ = w.Scr.Resume()
			}))
			w.Tty.Faults.Inc("suspend_resume")
			w.feedHold(second)
			w.settle()
			got := w.take()
			var want []string
			for _, r := range text {
				want = append(want, runeDesc(r, 0))
			}
			var f *hx.Failure
			if strings.Join(got, " ") != strings.Join(want, " ") {
				f = &hx.Failure{Tag: "C11/text", Msg: fmt.Sprintf("%s charset %s: %q, then %x (the start of a character), then Suspend and Resume, then %q: delivered %s, expected %s", cfg.Term, cs.Name, string(text[:h]), part, string(text[h:]), showEvents(got), showEvents(want))}
			}
			hx.St.Record(w.S, w.Tty.Faults.Map(), nil)
			pn, cerr := w.finish()
			for _, p := range pn {
				f = &hx.Failure{Tag: "C11/text", Msg: "panic: " + p}
			}
			return f, cerr
		}
	}
	in = append(in, tb...)
	for _, r := range text {
		want = append(want, runeDesc(r, 0))
	}
	if pasteMode && cp.paste {
		in = append(in, cp.pasteEnd...)
	}
	if paste && cp.paste {
		want = append(want, "paste:false")
	}
	if focus == 2 {
		in = append(in, "\x1b[O"...)
		want = append(want, "focus:false")
	}
	isCut := map[int]bool{}
	for _, c := range cuts {
		isCut[c%len(in)] = true
	}
	start := 0
	var chunks [][]byte
	for i := 1; i <= len(in); i++ {
		if i == len(in) || isCut[i] {
			if delivery < 0 {
				chunks = append(chunks, in[start:i])
			} else {
				w.feedHold(in[start:i])
				if delivery > 0 && i < len(in) {
					w.S.Advance(hx.Ms(delivery))
					w.Tty.Faults.Inc("slow_reads")
				}
			}
			start = i
			if i < len(in) {
				w.Tty.Faults.Inc("read_split")
			}
		}
	}
	if delivery < 0 {
		w.burstResize = len(in)%2 == 1
		w.feedBurst(chunks, -delivery-1)
	}
	held := append([]string(nil), w.evs...)
	w.settle()
	got := w.take()
	var f *hx.Failure
	mk := func(tag, format string, args ...interface{}) {
		if f == nil {
			f = &hx.Failure{Tag: tag, Msg: fmt.Sprintf("%s charset %s text %q (bytes %x, cuts %v): ", cfg.Term, cs.Name, string(text), in, cuts) + fmt.Sprintf(format, args...)}
		}
	}
	if strings.Join(got, " ") != strings.Join(want, " ") {
		tag := "C11/text"
		if paste {
			tag = "C11/paste"
		}
		if focus != 0 && (len(got) == 0 || len(want) == 0 || got[0] != want[0] || got[len(got)-1] != want[len(want)-1]) {
			tag = "C11/focus"
		}
		mk(tag, "delivered %s, expected %s", showEvents(got), showEvents(want))
	} else if len(held) != len(got) && focus != 2 && delivery == 0 {
		// complete characters need no timeout to be delivered
		mk("C11/text", "only %d of %d events were delivered before any time passed", len(held), len(got))
	}
	if w.stall {
		mk("C11/text", "input pipeline does not reach quiescence")
	}
	hx.St.Record(w.S, w.Tty.Faults.Map(), func() interface{} {
		return map[string]interface{}{"config": cfg.String(), "charset": cs.Name, "text": string(text), "bytes": fmt.Sprintf("%x", in), "cuts": cuts, "paste": paste}
	})
	pn, cerr := w.finish()
	for _, p := range pn {
		f = nil
		mk("C11/text", "panic: %s", p)
	}
	return f, cerr
}

func showEvents(evs []string) string {
	var sb strings.Builder
	for i, e := range evs {
		if i > 0 {
			sb.WriteByte(' ')
		}
		var r, m int
		if n, _ := fmt.Sscanf(e, "key:Rune:%d:%d", &r, &m); n == 2 && utf8.ValidRune(rune(r)) {
			fmt.Fprintf(&sb, "%q/%d", rune(r), m)
		} else {
			sb.WriteString(e)
		}
	}
	return "[" + sb.String() + "]"
}

func TestC11(t *testing.T) {
	css := loadCharsets()
	// pure clause, enumerated (thorough): every member of every charset
	// appears at least once, also as the last character.
	if cf := hx.LoadCase(); cf != nil || hx.Thorough() {
		wi, wn := hx.Worker()
		rng := hx.NewRng(hx.Seed())
		idx := 0
		for _, cs := range css {
			if strings.HasPrefix(strings.ToLower(cs.Name), "utf") {
				continue
			}
			for off := 0; off < len(cs.Members); off += 24 {
				idx++
				if cf != nil {
					if cf.Case["charset"] != cs.Name || int(cf.Case["offset"].(float64)) != off {
						continue
					}
				} else if idx%wn != wi {
					continue
				}
				if hx.PastDeadline() {
					break
				}
				end := off + 24
				if end > len(cs.Members) {
					end = len(cs.Members)
				}
				text := cs.Members[off:end]
				cuts := []int{1 + rng.Intn(40), 1 + rng.Intn(40), 1 + rng.Intn(40)}
				if cf != nil {
					cuts = nil
					for _, c := range cf.Case["cuts"].([]interface{}) {
						cuts = append(cuts, int(c.(float64)))
					}
				}
				hx.Arm("C11 enum")
				f, err := runC11(hx.Config{Term: "xterm-256color", W: 80, H: 24, GapScale: 1, AltScreen: true}, &simrt.Chooser{}, cs, text, idx%5 == 0, 0, cuts, 0, 0, idx%5, false)
				hx.Disarm()
				if err != nil {
					t.Fatalf("HARNESS: %v", err)
				}
				hx.St.Enumerated["C11 charset members sent as text"] += len(text)
				if f != nil {
					t.Log(hx.ReportCase("C11", "TestC11", f.Tag, f.Msg, map[string]interface{}{"charset": cs.Name, "offset": off, "cuts": cuts}))
					t.FailNow()
				}
			}
		}
		if cf != nil {
			return
		}
	}
	names := []string{"xterm-256color", "xterm", "linux", "vt100", "vt220", "screen", "tmux", "rxvt-unicode", "ansi", "sun", "wy60", "st", "kterm", "konsole"}
	rapid.Check(t, func(rt *rapid.T) {
		if hx.PastDeadline() {
			return
		}
		cs := css[rapid.IntRange(0, len(css)-1).Draw(rt, "charset")]
		if rapid.IntRange(0, 2).Draw(rt, "preferutf8") == 0 {
			for _, c := range css {
				if c.Name == "utf-8" {
					cs = c
				}
			}
		}
		delivery := rapid.SampledFrom([]int{0, 0, 0, 10, 20, 40, -1, -1, -101}).Draw(rt, "delivery")
		maxLen := 12
		if delivery < 0 {
			maxLen = 30 // more than the event queue holds
		}
		n := rapid.IntRange(1, maxLen).Draw(rt, "len")
		var text []rune
		for i := 0; i < n; i++ {
			text = append(text, cs.Members[rapid.IntRange(0, len(cs.Members)-1).Draw(rt, "r")])
		}
		cfg := hx.Config{Term: rapid.SampledFrom(names).Draw(rt, "term"), W: 40, H: 10, Go123: rapid.Bool().Draw(rt, "go123"),
			GapScale: rapid.SampledFrom([]int{1, 5}).Draw(rt, "gap"), MapMode: rapid.IntRange(0, 4).Draw(rt, "mapmode"), AltScreen: true}
		paste := rapid.Bool().Draw(rt, "paste")
		focus := rapid.IntRange(0, 2).Draw(rt, "focus")
		ti := hx.Term(cfg.Term, false)
		seqs, _ := keySeqs(ti)
		for _, ks := range seqs {
			// a focus-in report that is also the start of a key sequence is
			// ambiguous in front of text; a focus-out report is the last
			// thing sent, and the escape timeout settles it
			if focus == 1 && strings.HasPrefix(ks.Seq, "\x1b[I") && len(ks.Seq) > 3 {
				focus = 0
			}
		}
		var cuts []int
		nc := rapid.IntRange(0, 8).Draw(rt, "ncuts")
		for i := 0; i < nc; i++ {
			cuts = append(cuts, rapid.IntRange(1, 80).Draw(rt, "cut"))
		}
		if delivery < 0 && rapid.Bool().Draw(rt, "bytewise") {
			// every byte its own read: far more reads than the chunk queue holds
			cuts = cuts[:0]
			for i := 1; i < 200; i++ {
				cuts = append(cuts, i)
			}
		}
		ch := hx.DrawChooser(rt, 40)
		hx.Arm("C11")
		defer hx.Disarm()
		cycles := rapid.SampledFrom([]int{0, 0, 0, 1, 2}).Draw(rt, "cycles")
		via := rapid.IntRange(0, 4).Draw(rt, "localevia") + 5*rapid.SampledFrom([]int{0, 0, 3}).Draw(rt, "localeform")
		if strings.EqualFold(cs.Name, "utf-8") {
			// glibc's C.UTF-8 / POSIX.UTF-8 spellings
			via = via%5 + 5*rapid.SampledFrom([]int{0, 1, 2, 3, 4}).Draw(rt, "localeform8")
		}
		readErr := rapid.IntRange(0, 5).Draw(rt, "readerr") == 0
		f, err := runC11(cfg, ch, cs, text, paste, focus, cuts, delivery, cycles, via, readErr)
		if err != nil {
			rt.Fatalf("HARNESS: %v", err)
		}
		if f != nil {
			hx.WriteTrace("C11", f, map[string]interface{}{"config": cfg.String(), "charset": cs.Name, "text": string(text), "cuts": cuts, "delivery": delivery}, nil, nil, 0)
			rt.Fatalf("VIOLATION %s: %s", f.Tag, f.Msg)
		}
	})
}
