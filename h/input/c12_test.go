package input

import (
	"fmt"
	"strings"
	"testing"

	"github.com/gdamore/tcell/v2"
	"pgregory.net/rapid"
	"verif.local/hx"
	"verif.local/simrt"
)

// C12: mouse reports decode to the right position, buttons and modifiers.

type mrep struct {
	SGR     bool
	Code    int
	X, Y    int
	Release bool
	Eight   bool
}

func (r mrep) bytes() []byte {
	if r.SGR {
		return sgrReport(r.Code, r.X, r.Y, r.Release, r.Eight)
	}
	return x11Report(r.Code, r.X, r.Y, r.Eight)
}

func (r mrep) String() string {
	k := "X11"
	if r.SGR {
		k = "SGR"
	}
	return fmt.Sprintf("%s code=%d x=%d y=%d release=%v 8bit=%v", k, r.Code, r.X, r.Y, r.Release, r.Eight)
}

// runMouse feeds a history of reports (with optional rune tokens between)
// and compares with the independent protocol model.
// mousePre is the history before the reports arrive: the window changed
// size while the screen was suspended (W2 > 0: no notification is delivered
// for that; the reports come before any Show), and/or Suspend is called
// while the reports are being read (Race: after Yields scheduling points).
type mousePre struct {
	W2, H2 int
	Race   bool
	Yields int
	// ReEnable: after this many reports (0 = never) the application calls
	// EnableMouse again (Flags), or goes through a Suspend/Resume (Flags < 0),
	// while a button may be held down.
	ReEnable int
	Flags    int
	// Burst: the reads arrive back to back while the application does not
	// poll for BurstMs (more reports than the event queue holds).
	Burst   bool
	BurstMs int
}

func runMouse(cfg hx.Config, ch *simrt.Chooser, reps []mrep, text []string, cuts []int, strictOnly bool, pres ...mousePre) (*hx.Failure, error) {
	var pre mousePre
	if len(pres) > 0 {
		pre = pres[0]
	}
	w, err := newIW(cfg, ch)
	if err != nil {
		return nil, err
	}
	mm := &mouseModel{w: cfg.W, h: cfg.H}
	w.S.Note(hx.Fingerprint(cfg, reps, text, cuts, pre))
	var preErr error
	if pre.W2 > 0 {
		w.runTo(w.S.Spawn("resizer", func() {
			_ = w.Scr.Suspend()
			w.Tty.Resize(pre.W2, pre.H2)
			preErr = w.Scr.Resume()
		}))
		w.Tty.Faults.Inc("resized_while_suspended")
		mm.w, mm.h = pre.W2, pre.H2
	}
	var in []byte
	var want []string
	var strict, noVWheel []bool
	reAt := -1 // byte offset at which the application reconfigures the mouse
	for i, r := range reps {
		if pre.ReEnable > 0 && i == pre.ReEnable && !pre.Race && !pre.Burst {
			reAt = len(in)
		}
		in = append(in, r.bytes()...)
		rel := r.Release
		if !r.SGR {
			rel = r.Code&3 == 3 && r.Code&64 == 0 && r.Code&32 == 0
		}
		want = append(want, mm.decode(r.Code, r.X, r.Y, rel))
		strict = append(strict, mouseStrict(r.Code))
		// xterm's codes 66 and 67 are the horizontal wheel: whatever mask
		// they are given, it is not wheel-up or wheel-down
		noVWheel = append(noVWheel, r.Code&64 != 0 && r.Code&3 >= 2)
		if i < len(text) && text[i] != "" {
			in = append(in, text[i]...)
			for _, c := range text[i] {
				if c == 0x1b {
					// an ESC typed right before the next report (or last of
					// all): it is delivered as Esc, and the report after it
					// is still a mouse event
					want = append(want, keyDesc(tcell.KeyEsc, 0))
				} else {
					want = append(want, runeDesc(c, 0))
				}
				strict = append(strict, true)
				noVWheel = append(noVWheel, false)
			}
		}
	}
	isCut := map[int]bool{}
	for _, c := range cuts {
		isCut[c%len(in)] = true
	}
	start := 0
	var chunks [][]byte
	for i := 1; i <= len(in); i++ {
		if i == len(in) || isCut[i] || i == reAt {
			if pre.Race || pre.Burst {
				chunks = append(chunks, in[start:i])
			} else {
				w.feedHold(in[start:i])
			}
			if i == reAt {
				// everything so far has been decoded: the application changes
				// its mouse configuration; the button state is the terminal's
				// and the user's, not the configuration's
				w.runTo(w.S.Spawn("reconfigure", func() {
					switch {
					case pre.Flags < 0:
						_ = w.Scr.Suspend()
						preErr = w.Scr.Resume()
					case pre.Flags == 0:
						w.Scr.EnableMouse()
					default:
						w.Scr.EnableMouse(tcell.MouseFlags(pre.Flags))
					}
				}))
				w.Tty.Faults.Inc("mouse_reconfigured")
			}
			start = i
			if i < len(in) {
				w.Tty.Faults.Inc("read_split")
			}
		}
	}
	if pre.Burst && !pre.Race {
		w.feedBurst(chunks, pre.BurstMs)
	}
	if pre.Race {
		// Suspend lands while the reports are being read and decoded: what is
		// delivered is a prefix of what a quiet screen would deliver
		w.Tty.FeedChunks(chunks)
		w.S.Spawn("suspender", func() {
			for i := 0; i < pre.Yields; i++ {
				simrt.Yield("suspender.wait")
			}
			_ = w.Scr.Suspend()
		})
		w.Tty.Faults.Inc("suspend_during_input")
		if st := w.S.RunUntil(nil, w.S.Now()+1); st == simrt.Budget {
			w.stall = true
		}
	}
	held := len(w.evs)
	w.settle()
	got := w.take()
	var f *hx.Failure
	mk := func(tag, format string, args ...interface{}) {
		if f == nil {
			var rs []string
			for _, r := range reps {
				rs = append(rs, r.String())
			}
			f = &hx.Failure{Tag: tag, Msg: fmt.Sprintf("%s %dx%d reports [%s] text %q cuts %v: ", cfg.Term, cfg.W, cfg.H, strings.Join(rs, " | "), text, cuts) + fmt.Sprintf(format, args...)}
		}
	}
	if preErr != nil {
		mk("C12/pos", "Resume failed: %v", preErr)
	}
	// compatible: the delivered event is an acceptable decoding of expectation i
	compatible := func(g string, i int) bool {
		if g == want[i] {
			return true
		}
		var wx, wy, wb, wm, gx, gy, gb, gm int
		n1, _ := fmt.Sscanf(want[i], "mouse:%d,%d:%d:%d", &wx, &wy, &wb, &wm)
		n2, _ := fmt.Sscanf(g, "mouse:%d,%d:%d:%d", &gx, &gy, &gb, &gm)
		return n1 == 4 && n2 == 4 && wx == gx && wy == gy && wm == gm && (wb == gb || !strict[i])
	}
	if pre.Race {
		// Suspend discards input that is in flight: what is delivered is a
		// subsequence, in order, of what a quiet screen would deliver - and
		// every delivered report is decoded as it would have been
		i := 0
		for _, g := range got {
			for i < len(want) && !compatible(g, i) {
				i++
			}
			if i == len(want) {
				mk("C12/pos", "delivered %s while Suspend was in progress, which is not the decoding of any (remaining) report; expected a subsequence of %v, delivered %v", g, want, got)
				break
			}
			i++
		}
	} else if len(got) != len(want) {
		mk("C12/pos", "expected %d events %v, delivered %d: %v", len(want), want, len(got), got)
	} else {
		for i := range got {
			if got[i] == want[i] {
				continue
			}
			var wx, wy, wb, wm, gx, gy, gb, gm int
			n1, _ := fmt.Sscanf(want[i], "mouse:%d,%d:%d:%d", &wx, &wy, &wb, &wm)
			n2, _ := fmt.Sscanf(got[i], "mouse:%d,%d:%d:%d", &gx, &gy, &gb, &gm)
			switch {
			case n1 != 4 || n2 != 4:
				mk("C12/pos", "event #%d: expected %s, delivered %s", i, want[i], got[i])
			case wx != gx || wy != gy:
				mk("C12/pos", "event #%d: expected %s, delivered %s", i, want[i], got[i])
			case wm != gm:
				mk("C12/mod", "event #%d: expected %s, delivered %s", i, want[i], got[i])
			case !strict[i] && noVWheel[i] && tcell.ButtonMask(gb)&(tcell.WheelUp|tcell.WheelDown) != 0:
				mk("C12/button", "event #%d: a horizontal-wheel code was delivered as %s (a vertical wheel event)", i, got[i])
			case wb != gb && strict[i]:
				tag := "C12/button"
				if wb == 0 {
					tag = "C12/release"
				}
				mk(tag, "event #%d: expected %s, delivered %s", i, want[i], got[i])
			}
		}
	}
	if held != len(got) && f == nil && !pre.Race && !pre.Burst {
		mk("C12/pos", "only %d of %d events were delivered before any time passed (complete reports need no timeout)", held, len(got))
	}
	hx.St.Record(w.S, w.Tty.Faults.Map(), func() interface{} {
		return map[string]interface{}{"config": cfg.String(), "bytes": fmt.Sprintf("%q", in), "cuts": cuts, "events": got}
	})
	pn, cerr := w.finish()
	for _, p := range pn {
		f = nil
		mk("C12/pos", "panic: %s", p)
	}
	return f, cerr
}

func mouseTerms() []string {
	var out []string
	for _, n := range hx.TermNames() {
		if hx.Term(n, false).Mouse != "" {
			out = append(out, n)
		}
	}
	return out
}

func TestC12(t *testing.T) {
	terms := mouseTerms()
	cf := hx.LoadCase()
	// pure clause, enumerated: all button codes x finals x coordinates.
	if cf != nil || true {
		wi, wn := hx.Worker()
		coords := []int{-3, 0, 1, 2, 5, 10, 11, 12, 40, 99999}
		idx := 0
		eight := true
		for _, sgr := range []bool{true, false} {
			for code := 0; code < 256; code++ {
				if !sgr && code > 223 {
					continue
				}
				idx++
				if cf == nil && idx%wn != wi {
					continue
				}
				if cf == nil && !hx.Thorough() && code%4 != int(hx.Seed()%4) && code > 70 {
					continue
				}
				for _, rel := range []bool{false, true, false, true} {
					if !sgr && rel {
						continue
					}
					eight = !eight
					if cf != nil && (cf.Case["eight"] != eight || cf.Case["sgr"] != sgr || int(cf.Case["code"].(float64)) != code || cf.Case["release"] != rel) {
						continue
					}
					if cf != nil && cf.Case["kind"] != "enum" {
						continue
					}
					if hx.PastDeadline() {
						break
					}
					var reps []mrep
					for ci, x := range coords {
						y := coords[(ci+3)%len(coords)]
						if !sgr {
							// one byte per coordinate: 1..223
							if x < 1 {
								x = 1
							}
							if y < 1 {
								y = 1
							}
							if x > 200 {
								x = 200
							}
							if y > 200 {
								y = 200
							}
						}
						reps = append(reps, mrep{SGR: sgr, Code: code, X: x, Y: y, Release: rel, Eight: eight})
					}
					hx.Arm("C12 enum")
					cfg := hx.Config{Term: terms[idx%len(terms)], W: 11, H: 6, GapScale: 1, AltScreen: true}
					if eight {
						// an 8-bit CSI is a single byte only in an 8-bit locale
						cfg.Locale = "en_US.ISO8859-1"
						// carried by LC_ALL, or by LC_CTYPE with another character set in LANG
						cfg.LocaleVia = []int{0, 1, 5, 3}[code%4]
					}
					if cf != nil {
						cfg.Term = cf.Case["term"].(string)
					}
					f, err := runMouse(cfg, &simrt.Chooser{}, reps, nil, []int{3 + code%7, 17, 31}, false)
					hx.Disarm()
					if err != nil {
						t.Fatalf("HARNESS: %v", err)
					}
					hx.St.Enumerated["C12 button code x final x coordinate cases"] += len(reps)
					if f != nil {
						t.Log(hx.ReportCase("C12", "TestC12", f.Tag, f.Msg, map[string]interface{}{"kind": "enum", "sgr": sgr, "code": code, "release": rel, "term": cfg.Term, "eight": eight}))
						t.FailNow()
					}
				}
			}
		}
		if cf != nil {
			return
		}
	}
	// simulated dimension: report histories (press, drag, wheel, release,
	// bogus motion) cut anywhere, mixed with text.
	rapid.Check(t, func(rt *rapid.T) {
		if hx.PastDeadline() {
			return
		}
		cfg := hx.Config{Term: rapid.SampledFrom(terms).Draw(rt, "term"), W: rapid.IntRange(1, 20).Draw(rt, "w"), H: rapid.IntRange(1, 10).Draw(rt, "h"),
			Go123: rapid.Bool().Draw(rt, "go123"), GapScale: rapid.SampledFrom([]int{1, 5}).Draw(rt, "gap"), MapMode: rapid.IntRange(0, 4).Draw(rt, "mapmode"), AltScreen: true}
		n := rapid.IntRange(1, 10).Draw(rt, "nrep")
		if rapid.IntRange(0, 5).Draw(rt, "many") == 0 {
			n = rapid.IntRange(11, 30).Draw(rt, "nrepmany") // more than the event queue holds
		}
		sgr := rapid.IntRange(0, 3).Draw(rt, "proto") != 0
		var reps []mrep
		var text []string
		for i := 0; i < n; i++ {
			code := rapid.SampledFrom([]int{0, 1, 2, 0, 1, 2, 32, 33, 34, 35, 64, 65, 3}).Draw(rt, "code")
			if sgr && code == 3 {
				code = 35 // SGR has no button-3 press; release is the 'm' final
			}
			code |= rapid.SampledFrom([]int{0, 0, 0, 4, 8, 16, 28}).Draw(rt, "mods")
			r := mrep{SGR: sgr, Code: code, X: rapid.IntRange(1, cfg.W+4).Draw(rt, "x"), Y: rapid.IntRange(1, cfg.H+4).Draw(rt, "y")}
			if sgr {
				r.Release = rapid.IntRange(0, 3).Draw(rt, "rel") == 0
				if rapid.IntRange(0, 9).Draw(rt, "neg") == 0 {
					r.X = -rapid.IntRange(0, 5).Draw(rt, "negx")
				}
			}
			reps = append(reps, r)
			if rapid.IntRange(0, 4).Draw(rt, "repeat") == 0 {
				// the very same report again (the pointer reported twice in one cell)
				reps = append(reps, r)
				text = append(text, "")
			}
			if rapid.IntRange(0, 3).Draw(rt, "txt") == 0 {
				text = append(text, rapid.SampledFrom([]string{"a", "M", "m", "<", ";", "é", "0", "\x1b", "\x1b"}).Draw(rt, "t"))
			} else {
				text = append(text, "")
			}
		}
		if len(text) > 0 && text[len(text)-1] == "\x1b" {
			text[len(text)-1] = "" // (a lone trailing ESC is C03's business: it needs the timeout)
		}
		var cuts []int
		nc := rapid.IntRange(0, 8).Draw(rt, "ncuts")
		for i := 0; i < nc; i++ {
			cuts = append(cuts, rapid.IntRange(1, 120).Draw(rt, "cut"))
		}
		var pre mousePre
		switch rapid.IntRange(0, 8).Draw(rt, "history") {
		case 6:
			pre.ReEnable, pre.Flags = rapid.IntRange(1, n).Draw(rt, "reat"), rapid.IntRange(-1, 7).Draw(rt, "reflags")
		case 7, 8:
			pre.Burst, pre.BurstMs = true, rapid.SampledFrom([]int{0, 60, 200}).Draw(rt, "burstms")
		case 0:
			pre.W2, pre.H2 = rapid.IntRange(1, 24).Draw(rt, "w2"), rapid.IntRange(1, 12).Draw(rt, "h2")
		case 1:
			pre.Race, pre.Yields = true, rapid.IntRange(0, 12).Draw(rt, "yields")
		case 2:
			pre.W2, pre.H2 = rapid.IntRange(1, 24).Draw(rt, "w2"), rapid.IntRange(1, 12).Draw(rt, "h2")
			pre.Race, pre.Yields = true, rapid.IntRange(0, 12).Draw(rt, "yields")
		}
		if pre.ReEnable > 0 && pre.Flags < 0 && pre.ReEnable-1 < len(text) && text[pre.ReEnable-1] == "\x1b" {
			text[pre.ReEnable-1] = "" // (an ESC still pending when the screen is suspended is dropped with it)
		}
		if pre.Race {
			for i := range text {
				if text[i] == "\x1b" {
					text[i] = ""
				}
			}
		}
		ch := hx.DrawChooser(rt, 60)
		hx.Arm("C12")
		defer hx.Disarm()
		f, err := runMouse(cfg, ch, reps, text, cuts, false, pre)
		if err != nil {
			rt.Fatalf("HARNESS: %v", err)
		}
		if f != nil {
			hx.WriteTrace("C12", f, map[string]interface{}{"config": cfg.String(), "cuts": cuts, "history": fmt.Sprintf("%+v", pre)}, nil, nil, 0)
			rt.Fatalf("VIOLATION %s: %s", f.Tag, f.Msg)
		}
	})
}
