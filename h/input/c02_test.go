package input

import (
	"bytes"
	"encoding/base64"
	"fmt"
	"strings"
	"testing"
	"time"

	"github.com/gdamore/tcell/v2"
	"github.com/gdamore/tcell/v2/terminfo"
	"pgregory.net/rapid"
	"verif.local/hx"
	"verif.local/simrt"
)

// C02: the events decoded from a byte stream do not depend on how it is cut
// into reads; nothing is swallowed, nothing stays buffered past the timeout.

type c02tok struct {
	// pair: the token may produce two events (an Esc key, then the report)
	// or the report alone; never the report before the Esc key
	pair   bool
	Kind   string
	B      []byte
	accept func(string) bool
	Want   string // description of the expectation, for messages
	weak   bool   // the statement does not pin the event down
}

type c02plan struct {
	Cfg        hx.Config
	Bytes      []byte
	Cuts       []int
	Toks       []c02tok
	Kind       string
	Suspend    bool // one more run: Suspend/Resume right after the last read
	Burst      int  // ms of simulated time that pass while the unpolled burst sits in the queues
	SlowResize bool // one more run: a resize on a slow line between the first read and the rest
	Touch      bool // the poller also calls Size()/HasPendingEvent() between polls
}

func exact(s string) func(string) bool { return func(g string) bool { return g == s } }

func drawRune(t *rapid.T) rune {
	switch rapid.IntRange(0, 5).Draw(t, "runeclass") {
	case 0, 1:
		return rune(rapid.IntRange(0x20, 0x7e).Draw(t, "ascii"))
	case 2:
		return rune(rapid.IntRange(0xa1, 0x24f).Draw(t, "latin"))
	case 3:
		return rune(rapid.IntRange(0x391, 0x44f).Draw(t, "greekcyr"))
	case 4:
		return rune(rapid.IntRange(0x4e00, 0x9fa5).Draw(t, "cjk"))
	default:
		return rune(rapid.IntRange(0x1f600, 0x1f64f).Draw(t, "emoji"))
	}
}

// drawTokens builds a token string for the terminal from its description.
// tokLegacy: the legacy character set the token string being drawn is typed in (nil: UTF-8).
var tokLegacy *charset

var trickyCache = map[string][]rune{}

// trickyMembers are the characters whose encoding contains a byte that also
// starts or continues a control sequence.
func trickyMembers(cs *charset) []rune {
	if m, ok := trickyCache[cs.Name]; ok {
		return m
	}
	var out []rune
	for _, r := range cs.Members {
		b := encodeText(cs, []rune{r})
		if len(b) == 1 && b[0] < 0x80 {
			continue
		}
		if bytes.IndexByte(b, 0x9b) >= 0 || (len(b) >= 2 && bytes.IndexAny(b[1:], "[M<]\\O;~") >= 0) {
			out = append(out, r)
		}
	}
	trickyCache[cs.Name] = out
	return out
}

func drawTokens(t *rapid.T, ti *terminfo.Terminfo, w, h int) []c02tok {
	seqs, _ := keySeqs(ti)
	cp := capsOf(ti)
	focusOK := true
	for _, ks := range seqs {
		if strings.HasPrefix(ks.Seq, "\x1b[O") || strings.HasPrefix(ks.Seq, "\x1b[I") {
			focusOK = false // a key of this terminal extends the focus report
		}
	}
	mm := &mouseModel{w: w, h: h}
	n := rapid.IntRange(1, 10).Draw(t, "ntok")
	var toks []c02tok
	for i := 0; i < n; i++ {
		switch rapid.IntRange(0, 11).Draw(t, "tok") {
		case 0, 1, 2:
			if len(seqs) == 0 {
				continue
			}
			ks := seqs[rapid.IntRange(0, len(seqs)-1).Draw(t, "key")]
			if ks.Seq == "\x1b" {
				continue
			}
			toks = append(toks, c02tok{Kind: "key", B: []byte(ks.Seq), accept: ks.accepts, Want: ks.String()})
		case 3, 4, 5:
			if tokLegacy != nil {
				// a character of the legacy locale; preferably one whose bytes
				// look like (parts of) control sequences: 0x9b, '[', 'M', '<', ']'
				pool := trickyMembers(tokLegacy)
				if len(pool) == 0 || rapid.IntRange(0, 2).Draw(t, "plainmember") == 0 {
					pool = tokLegacy.Members
				}
				r := pool[rapid.IntRange(0, len(pool)-1).Draw(t, "member")]
				toks = append(toks, c02tok{Kind: "rune", B: encodeText(tokLegacy, []rune{r}), accept: exact(runeDesc(r, 0)), Want: fmt.Sprintf("rune %q (% x in %s)", r, encodeText(tokLegacy, []rune{r}), tokLegacy.Name)})
				continue
			}
			r := drawRune(t)
			toks = append(toks, c02tok{Kind: "rune", B: []byte(string(r)), accept: exact(runeDesc(r, 0)), Want: fmt.Sprintf("rune %q", r)})
		case 6, 7:
			if !cp.mouse {
				continue
			}
			code := rapid.SampledFrom([]int{0, 1, 2, 0, 32, 35, 64, 65, 4, 8, 16, 28}).Draw(t, "mcode")
			x := rapid.IntRange(1, w+3).Draw(t, "mx")
			y := rapid.IntRange(1, h+3).Draw(t, "my")
			rel := rapid.IntRange(0, 3).Draw(t, "mrel") == 0
			want := mm.decode(code, x, y, rel)
			toks = append(toks, c02tok{Kind: "mouse", B: sgrReport(code, x, y, rel, false), accept: exact(want), Want: want})
		case 8:
			if !cp.paste {
				continue
			}
			if rapid.Bool().Draw(t, "pstart") {
				toks = append(toks, c02tok{Kind: "paste", B: []byte(cp.pasteStart), accept: exact("paste:true"), Want: "paste start"})
			} else {
				toks = append(toks, c02tok{Kind: "paste", B: []byte(cp.pasteEnd), accept: exact("paste:false"), Want: "paste end"})
			}
		case 9:
			if !focusOK {
				// on such a terminal only the escape timeout tells a focus
				// report from the start of a key: as the last thing sent,
				// followed by silence, it is a focus report
				if i == n-1 {
					toks = append(toks, c02tok{Kind: "focus", B: []byte("\x1b[O"), accept: exact("focus:false"), Want: "focus out (then silence)"})
				}
				continue
			}
			if rapid.Bool().Draw(t, "fin") {
				toks = append(toks, c02tok{Kind: "focus", B: []byte("\x1b[I"), accept: exact("focus:true"), Want: "focus in"})
			} else {
				toks = append(toks, c02tok{Kind: "focus", B: []byte("\x1b[O"), accept: exact("focus:false"), Want: "focus out"})
			}
		case 10:
			if !cp.clip {
				continue
			}
			data := rapid.SliceOfN(rapid.Byte(), 0, 9).Draw(t, "clip")
			term := "\x07"
			if rapid.Bool().Draw(t, "st") {
				term = "\x1b\\"
			}
			b := []byte("\x1b]52;c;" + base64.StdEncoding.EncodeToString(data) + term)
			toks = append(toks, c02tok{Kind: "clip", B: b, accept: exact(fmt.Sprintf("clip:%x", data)), Want: "OSC 52 reply"})
		default:
			// ESC prefix: Alt on a following key or rune; the statement says
			// nothing about ESC before another report, so that is "weak".
			toks = append(toks, c02tok{Kind: "esc", B: []byte{0x1b}})
		}
	}
	// resolve ESC prefixes
	var out []c02tok
	for i := 0; i < len(toks); i++ {
		tk := toks[i]
		if tk.Kind != "esc" {
			out = append(out, tk)
			continue
		}
		if i+1 >= len(toks) || toks[i+1].Kind == "esc" {
			continue // a trailing lone ESC is C03's business
		}
		nx := toks[i+1]
		i++
		merged := c02tok{Kind: "alt+" + nx.Kind, B: append([]byte{0x1b}, nx.B...), Want: "ESC + " + nx.Want}
		clash := false
		for _, ks := range seqs {
			if strings.HasPrefix(ks.Seq, string(merged.B)) || strings.HasPrefix(string(merged.B), ks.Seq) {
				clash = true // ESC + this token is (part of) a key of this terminal
			}
		}
		switch {
		case clash:
			merged.weak = true
		case nx.Kind == "rune":
			inner := nx.accept
			merged.accept = func(g string) bool { return inner(stripAlt(g)) && g != stripAlt(g) }
		case nx.Kind == "mouse" || nx.Kind == "focus" || nx.Kind == "clip" || nx.Kind == "paste":
			// an ESC directly before a report: input order demands that an
			// Esc key, if delivered at all, comes before the report
			merged.pair = true
			merged.accept = nx.accept
		default:
			merged.weak = true
		}
		out = append(out, merged)
	}
	return out
}

func noMousePos(evs []string) []string {
	out := make([]string, len(evs))
	for i, e := range evs {
		out[i] = e
		if strings.HasPrefix(e, "mouse:") {
			if parts := strings.SplitN(e, ":", 3); len(parts) == 3 {
				out[i] = "mouse:" + parts[2]
			}
		}
	}
	return out
}

func stripAlt(desc string) string {
	var a, b int
	if n, _ := fmt.Sscanf(desc, "key:Rune:%d:%d", &a, &b); n == 2 {
		return fmt.Sprintf("key:Rune:%d:%d", a, b&^4)
	}
	return desc
}

func drawC02(t *rapid.T) *c02plan {
	p := &c02plan{}
	names := hx.TermNames()
	p.Cfg = hx.Config{Term: rapid.SampledFrom(names).Draw(t, "term"), W: rapid.IntRange(1, 30).Draw(t, "w"), H: rapid.IntRange(1, 12).Draw(t, "h"),
		Go123: rapid.Bool().Draw(t, "go123"), GapScale: rapid.SampledFrom([]int{1, 3, 10}).Draw(t, "gap"),
		MapMode: rapid.IntRange(0, 4).Draw(t, "mapmode"), MapSeed: uint64(rapid.IntRange(0, 1000).Draw(t, "mapseed")), AltScreen: true}
	ti := hx.Term(p.Cfg.Term, false)
	if rapid.IntRange(0, 9).Draw(t, "kind") < 7 {
		p.Kind = "tokens"
		tokLegacy = nil
		if rapid.IntRange(0, 4).Draw(t, "legacytokens") == 0 {
			// typed text in a legacy locale, between the reports
			var legacy []*charset
			for _, cs := range loadCharsets() {
				if !strings.HasPrefix(strings.ToLower(cs.Name), "utf") && cs.Name != "US-ASCII" {
					legacy = append(legacy, cs)
				}
			}
			tokLegacy = legacy[rapid.IntRange(0, len(legacy)-1).Draw(t, "legacycs")]
			p.Cfg.Locale = "en_US." + tokLegacy.Name
		}
		p.Toks = drawTokens(t, ti, p.Cfg.W, p.Cfg.H)
		tokLegacy = nil
		for _, tk := range p.Toks {
			p.Bytes = append(p.Bytes, tk.B...)
		}
	} else {
		p.Kind = "bytes"
		legacy := ""
		if rapid.IntRange(0, 2).Draw(t, "legacy") == 0 {
			// a legacy multi-byte locale: characters are two to four bytes
			// with lead and trail bytes in overlapping ranges
			legacy = rapid.SampledFrom([]string{"Shift_JIS", "EUC-JP", "GBK", "GB18030", "Big5", "EUC-KR", "ISO8859-1", "KOI8-R"}).Draw(t, "charset")
			p.Cfg.Locale = "en_US." + legacy
		}
		alphabet := []byte("\x1b\x1b\x1b[[[O<;;0123456789Mm~IO]\\\x07\x9b\xc3\xa9\xe4\xb8\xad\x7f\x00\x08\x0d abAB?$^")
		if legacy != "" {
			alphabet = append(alphabet, "\x81\x83\x5c\x40\xa4\xa2\xb0\xa1\x8e\x8f\xe0\x81\x30\x81\x30\xfe\x39\x82\xa0\x88\xea"...)
		}
		junk := []string{"\x1b]52;c;YQ\x1b\\", "\x1b]52;c;!!!!\x07", "\x1b]52;c;YWJj\x1b\\", "\x1b]52;c;=\x07", "\x1b[<0;1;1", "\x1b[M",
			// complete legacy and SGR mouse reports behind a one-byte CSI
			"\x9bM !!", "\x9bM#\x22\x22", "\x9b<0;2;2M", "\x1b[M !!"}
		n := rapid.IntRange(1, 40).Draw(t, "nbytes")
		for i := 0; i < n; i++ {
			if rapid.IntRange(0, 19).Draw(t, "junk") == 0 {
				// an OSC 52 reply whose payload is not valid padded base64, a truncated report
				p.Bytes = append(p.Bytes, rapid.SampledFrom(junk).Draw(t, "junkstr")...)
				continue
			}
			if rapid.IntRange(0, 3).Draw(t, "rawbyte") == 0 {
				p.Bytes = append(p.Bytes, rapid.Byte().Draw(t, "b"))
			} else {
				p.Bytes = append(p.Bytes, rapid.SampledFrom(alphabet).Draw(t, "a"))
			}
		}
	}
	if len(p.Bytes) > 120 {
		p.Bytes = p.Bytes[:120]
		p.Kind = "bytes"
		p.Toks = nil
	}
	// a tty that is polled (Read returns 0 bytes every 10 ms when idle)
	p.Cfg.Polling = rapid.IntRange(0, 5).Draw(t, "polling") == 0
	p.Burst = rapid.SampledFrom([]int{0, 0, 60, 200}).Draw(t, "burstms")
	p.Suspend = rapid.IntRange(0, 3).Draw(t, "suspend") == 0
	// an application that uses the screen between polls
	p.Touch = rapid.IntRange(0, 3).Draw(t, "touch") == 0
	p.SlowResize = rapid.IntRange(0, 2).Draw(t, "slowresize") == 0
	ncut := rapid.IntRange(1, 11).Draw(t, "ncuts")
	for i := 0; i < ncut && len(p.Bytes) > 1; i++ {
		p.Cuts = append(p.Cuts, rapid.IntRange(1, len(p.Bytes)-1).Draw(t, "cut"))
	}
	return p
}

type c02result struct {
	evs      []string
	sentinel []string
	stall    bool
	panics   []string
	sig      uint64
}

// decodeStream runs the bytes through a fresh screen, cut at cuts, with the
// clock held between chunks, then lets the timeout pass and sends a sentinel.
// With burst >= 0 the chunks are instead delivered as back-to-back reads
// while nobody polls (burst ms of simulated time pass meanwhile).
// burst == -2: as -1, then the application suspends and resumes the screen
// before any timeout has passed (whatever was pending is dropped).
func decodeStream(cfg hx.Config, ch *simrt.Chooser, b []byte, cuts []int, rec bool, burst int) (*c02result, error) {
	w, err := newIW(cfg, ch)
	if err != nil {
		return nil, err
	}
	w.S.Note(hx.Fingerprint(cfg, b, cuts))
	isCut := map[int]bool{}
	for _, c := range cuts {
		isCut[c] = true
	}
	start := 0
	var chunks [][]byte
	for i := 1; i <= len(b); i++ {
		if i == len(b) || isCut[i] {
			if burst >= 0 || burst == -3 {
				chunks = append(chunks, b[start:i])
			} else {
				w.feedHold(b[start:i])
			}
			start = i
			if i < len(b) {
				w.Tty.Faults.Inc("read_split")
			}
		}
	}
	if burst >= 0 {
		w.feedBurst(chunks, burst)
	}
	if burst == -3 && len(b) > 0 {
		// the chunks were only collected: after the first one the window
		// changes size and the line is slow taking the repaint (130 ms, more
		// than the escape timeout), and the remaining reads happen at once,
		// while the main loop is still busy writing.  Every byte was read
		// within the timeout of the one before it.
		w.feedHold(chunks[0])
		n0 := w.Tty.SlowWrites
		w.Tty.WriteDelay = 130 * time.Millisecond
		w.Tty.Resize(w.Tty.W+1, w.Tty.H)
		w.S.Spawn("winch", func() { w.Tty.FireResize() })
		w.Tty.Faults.Inc("resize")
		if st := w.S.RunUntil(func() bool { return w.Tty.SlowWrites > n0 }, w.S.Now()+w.holdFor()); st == simrt.Budget {
			w.stall = true
		}
		if len(chunks) > 1 {
			w.Tty.FeedChunks(chunks[1:])
		}
		if st := w.S.RunUntil(nil, w.S.Now()+w.holdFor()); st == simrt.Budget {
			w.stall = true
		}
		w.Tty.WriteDelay = 0
	}
	var srErr error
	if burst == -2 {
		w.runTo(w.S.Spawn("suspend-resume", func() {
			_ = w.Scr.Suspend()
			srErr = w.Scr.Resume()
		}))
		w.Tty.Faults.Inc("suspend_resume")
	}
	w.settle()
	res := &c02result{}
	res.evs = w.take()
	w.feedHold([]byte("Q"))
	w.settle()
	res.sentinel = w.take()
	res.stall = w.stall
	if srErr != nil {
		res.panics = append(res.panics, "Resume failed: "+srErr.Error())
	}
	res.sig = w.S.Hash()
	if rec {
		hx.St.Record(w.S, w.Tty.Faults.Map(), func() interface{} {
			return map[string]interface{}{"config": cfg.String(), "bytes": fmt.Sprintf("%q", b), "cuts": cuts, "events": res.evs}
		})
	}
	pn, cerr := w.finish()
	res.panics = append(res.panics, pn...)
	return res, cerr
}

func runC02(t *rapid.T) {
	if hx.PastDeadline() {
		return
	}
	p := drawC02(t)
	iwTouch = p.Touch
	defer func() { iwTouch = false }()
	chA := &simrt.Chooser{}
	chB := hx.DrawChooser(t, 60)
	chC := hx.DrawChooser(t, 60)
	chD := hx.DrawChooser(t, 30)
	chE := hx.DrawChooser(t, 40)
	hx.Arm("C02")
	defer hx.Disarm()
	a, err := decodeStream(p.Cfg, chA, p.Bytes, nil, false, -1)
	if err != nil {
		t.Fatalf("HARNESS: %v", err)
	}
	b, err := decodeStream(p.Cfg, chB, p.Bytes, p.Cuts, true, -1)
	if err != nil {
		t.Fatalf("HARNESS: %v", err)
	}
	// the same chunks as back-to-back reads with the application not polling
	c, err := decodeStream(p.Cfg, chC, p.Bytes, p.Cuts, true, p.Burst)
	if err != nil {
		t.Fatalf("HARNESS: %v", err)
	}
	// ... and with a Suspend/Resume right after the last read: pending input
	// is dropped, so the events are a prefix of those of the quiet run, and
	// nothing of the dropped input may colour what is typed afterwards
	var d *c02result
	if p.Suspend {
		d, err = decodeStream(p.Cfg, chD, p.Bytes, p.Cuts, true, -2)
		if err != nil {
			t.Fatalf("HARNESS: %v", err)
		}
	}
	var f *hx.Failure
	fail := func(tag, format string, args ...interface{}) {
		if f == nil {
			f = &hx.Failure{Tag: tag, Msg: fmt.Sprintf("%s input %q: ", p.Cfg.Term, p.Bytes) + fmt.Sprintf(format, args...)}
		}
	}
	if p.SlowResize && !p.Cfg.Polling {
		e, err := decodeStream(p.Cfg, chE, p.Bytes, p.Cuts, true, -3)
		if err != nil {
			t.Fatalf("HARNESS: %v", err)
		}
		for _, pn := range e.panics {
			fail("C02/panic", "decoding panics: %s", pn)
		}
		// (mouse positions are clipped against the window, whose size differs
		// between the two runs: compared without them)
		if strings.Join(noMousePos(a.evs), " ") != strings.Join(noMousePos(e.evs), " ") {
			fail("C02/partition", "delivered in one read: %v; cut at %v, with the window resized after the first read and the remaining reads made while a slow line was still taking the repaint: %v", a.evs, p.Cuts, e.evs)
		}
		if len(e.sentinel) != 1 || e.sentinel[0] != runeDesc('Q', 0) {
			fail("C02/residue", "after a resize on a slow line and the escape timeout a fresh 'Q' decoded to %v (cuts %v, events before: %v)", e.sentinel, p.Cuts, e.evs)
		}
	}
	for _, r := range []*c02result{a, b, c} {
		for _, pn := range r.panics {
			fail("C02/panic", "decoding panics: %s", pn)
		}
		if r.stall {
			fail("C02/panic", "the input pipeline does not reach quiescence (step budget exhausted)")
		}
	}
	if strings.Join(a.evs, " ") != strings.Join(b.evs, " ") {
		fail("C02/partition", "delivered in one read: %v; cut at %v: %v", a.evs, p.Cuts, b.evs)
	}
	if strings.Join(a.evs, " ") != strings.Join(c.evs, " ") {
		fail("C02/partition", "delivered in one read: %v; cut at %v and read back to back while the application was not polling (%d ms): %v", a.evs, p.Cuts, p.Burst, c.evs)
	}
	if p.Kind == "tokens" {
		ok := true
		weak := false
		for _, tk := range p.Toks {
			if tk.weak {
				weak = true
			}
		}
		if !weak {
			// walk the events token by token
			ok = true
			i := 0
			for _, tk := range p.Toks {
				if tk.pair {
					// the ESC before a report is a keypress of its own: it is
					// delivered (as Esc), before the report - not swallowed
					if i >= len(a.evs) || a.evs[i] != keyDesc(tcell.KeyEsc, 0) {
						ok = false
						break
					}
					i++
				}
				if i >= len(a.evs) || !tk.accept(a.evs[i]) {
					ok = false
					break
				}
				i++
			}
			if i != len(a.evs) {
				ok = false
			}
			if !ok {
				var wants []string
				for _, tk := range p.Toks {
					wants = append(wants, tk.Want)
				}
				fail("C02/neighbour", "token string [%s] decoded to %v", strings.Join(wants, " | "), a.evs)
			}
		}
	}
	if d != nil {
		for _, pn := range d.panics {
			fail("C02/panic", "decoding with a Suspend/Resume panics: %s", pn)
		}
		if len(d.evs) > len(a.evs) || strings.Join(d.evs, " ") != strings.Join(a.evs[:len(d.evs)], " ") {
			fail("C02/partition", "delivered in one read: %v; cut at %v, then Suspend and Resume before any timeout: %v (not a prefix)", a.evs, p.Cuts, d.evs)
		}
		if len(d.sentinel) != 1 || d.sentinel[0] != runeDesc('Q', 0) {
			fail("C02/residue", "after Suspend, Resume and the escape timeout a fresh 'Q' decoded to %v (cuts %v, events before: %v): input from before the Suspend still colours it", d.sentinel, p.Cuts, d.evs)
		}
	}
	for i, r := range []*c02result{a, b, c} {
		if len(r.sentinel) != 1 || r.sentinel[0] != runeDesc('Q', 0) {
			fail("C02/residue", "after the escape timeout a fresh 'Q' decoded to %v (run %d, cuts %v, events before: %v): something stayed buffered", r.sentinel, i, p.Cuts, r.evs)
		}
	}
	if f != nil {
		hx.WriteTrace("C02", f, map[string]interface{}{"config": p.Cfg.String(), "bytes": fmt.Sprintf("%q", p.Bytes), "cuts": p.Cuts, "kind": p.Kind}, nil, nil, b.sig)
		t.Fatalf("VIOLATION %s: %s", f.Tag, f.Msg)
	}
}

func TestC02(t *testing.T) { rapid.Check(t, runC02) }
