package input

import (
	"fmt"

	"github.com/gdamore/tcell/v2"
)

// mouseModel is an independent decoder of the xterm mouse protocol, written
// from ctlseqs ("Mouse Tracking"), mapped to tcell's button numbering as the
// property states it (right = Button2, middle = Button3).
type mouseModel struct {
	w, h int
	held bool // a button press was reported and not yet released
}

func clipTo(v, n int) int {
	if v < 0 {
		v = 0
	}
	if v > n-1 {
		v = n - 1
	}
	return v
}

// strict says whether the statement pins down the button mask for code.
func mouseStrict(code int) bool {
	low := code & 3
	if code&64 != 0 {
		// wheel up / down only; xterm never combines wheel with motion
		return (low == 0 || low == 1) && code&32 == 0
	}
	if code&128 != 0 {
		return false // buttons 8-11: not covered by the statement
	}
	_ = low
	return true
}

// decode returns the expected event description for a report with xterm
// button code `code` (already without the X11 offset of 32), 1-based cell
// position x,y and release flag (SGR final 'm', or X11 button 3).
func (m *mouseModel) decode(code, x, y int, release bool) string {
	var mod tcell.ModMask
	if code&4 != 0 {
		mod |= tcell.ModShift
	}
	if code&8 != 0 {
		mod |= tcell.ModAlt
	}
	if code&16 != 0 {
		mod |= tcell.ModCtrl
	}
	motion := code&32 != 0
	wheel := code&64 != 0
	low := code & 3
	btn := tcell.ButtonNone
	switch {
	case release:
		m.held = false
	case wheel:
		switch low {
		case 0:
			btn = tcell.WheelUp
		case 1:
			btn = tcell.WheelDown
		}
	default:
		switch low {
		case 0:
			btn = tcell.Button1
		case 1:
			btn = tcell.Button3 // middle
		case 2:
			btn = tcell.Button2 // right
		case 3:
			btn = tcell.ButtonNone
		}
		if motion {
			if !m.held {
				btn = tcell.ButtonNone
			}
		} else if low != 3 {
			m.held = true
		} else {
			m.held = false // X11 release
		}
	}
	return fmt.Sprintf("mouse:%d,%d:%d:%d", clipTo(x-1, m.w), clipTo(y-1, m.h), btn, mod)
}

func sgrReport(code, x, y int, release bool, eightBit bool) []byte {
	fin := 'M'
	if release {
		fin = 'm'
	}
	intro := "\x1b["
	if eightBit {
		intro = "\x9b"
	}
	return []byte(fmt.Sprintf("%s<%d;%d;%d%c", intro, code, x, y, fin))
}

func x11Report(code, x, y int, eightBit bool) []byte {
	intro := "\x1b["
	if eightBit {
		intro = "\x9b"
	}
	return append([]byte(intro+"M"), byte(code+32), byte(x+32), byte(y+32))
}
