package input

import (
	"fmt"
	"reflect"
	"sort"
	"strings"
	"testing"

	"github.com/gdamore/tcell/v2"
	"github.com/gdamore/tcell/v2/terminfo"
	"verif.local/hx"
	"verif.local/simrt"
)

// C03: every key sequence of every terminal decodes to its key and
// modifiers.  The walk over the key fields is an enumeration (pure clause);
// what the simulator adds is the key-table iteration order, the read
// partition and the escape-timeout clock.

type c03fail struct {
	tag, msg string
	c        map[string]interface{}
}

type c03run struct {
	term  string
	mode  int
	seed  uint64
	go123 bool
	only  map[string]interface{} // replay filter (on what is reported: the whole history is always re-run)
	thor  bool
	rseed uint64
	fails []c03fail
	cases int
	w     *iw
	rng   *hx.Rng
}

func (r *c03run) fail(tag, kind, seq string, split int, format string, args ...interface{}) {
	if r.only != nil && !(r.only["kind"] == kind && r.only["seq"] == fmt.Sprintf("%x", seq) && int(r.only["split"].(float64)) == split) {
		return
	}
	msg := fmt.Sprintf("%s [map order %d]: ", r.term, r.mode) + fmt.Sprintf(format, args...)
	r.fails = append(r.fails, c03fail{tag, msg, map[string]interface{}{
		"term": r.term, "mapmode": r.mode, "mapseed": r.seed, "go123": r.go123, "kind": kind, "seq": fmt.Sprintf("%x", seq), "split": split,
		"thorough": r.thor, "rngseed": r.rseed,
	}})
}

// want: a decode may depend on what the screen decoded before it (the key
// table and the escape state persist), so a replay re-runs the whole history
// of its terminal and filters only what is reported.
func (r *c03run) want(kind, seq string, split int) bool { return true }

// decode feeds seq (cut at split if > 0) with the clock held, then lets the
// timeout pass, and returns the events.
func (r *c03run) decode(seq string, split int) (held []string, all []string) {
	w := r.w
	if split > 0 && split < len(seq) {
		w.feedHold([]byte(seq[:split]))
		w.feedHold([]byte(seq[split:]))
	} else {
		w.feedHold([]byte(seq))
	}
	held = append([]string(nil), w.evs...)
	w.settle()
	all = w.take()
	r.cases++
	return
}

func withAlt(desc string) string {
	var a, b, c int
	if n, _ := fmt.Sscanf(desc, "key:Rune:%d:%d", &a, &b); n == 2 {
		return fmt.Sprintf("key:Rune:%d:%d", a, b|int(tcell.ModAlt))
	}
	if n, _ := fmt.Sscanf(desc, "key:%d:%d", &a, &c); n == 2 {
		return fmt.Sprintf("key:%d:%d", a, c|int(tcell.ModAlt))
	}
	return desc
}

func (r *c03run) run() error {
	cfg := hx.Config{Term: r.term, W: 80, H: 24, Go123: r.go123, GapScale: 1, MapMode: r.mode, MapSeed: r.seed, AltScreen: true}
	// odd order modes also run under seeded schedules (which goroutine runs,
	// which ready select case wins) and with focus, paste and mouse reporting
	// switched on by the application: decoding must not depend on either
	ch := &simrt.Chooser{}
	if r.mode%2 == 1 || r.mode == 4 {
		ch = hx.RandomChooser(hx.NewRng(r.rseed^0x5eed), 6000)
	}
	w, err := newIW(cfg, ch)
	if err != nil {
		return err
	}
	r.w = w
	if r.mode%2 == 1 || r.mode == 4 {
		w.runTo(w.S.Spawn("app-modes", func() {
			w.Scr.EnableFocus()
			w.Scr.EnablePaste()
			w.Scr.EnableMouse()
		}))
	}
	defer func() {
		pn, cerr := w.finish()
		for _, p := range pn {
			r.fail("C03/key", "panic", "", 0, "panic while decoding: %s", p)
		}
		if cerr != nil && err == nil {
			err = cerr
		}
	}()
	seqs, gen := keySeqs(w.Ti)
	thorough := r.thor

	// (1) prefix-freeness: of the description's own sequences, and of the
	// table the screen built from them.
	if r.want("prefix", "", 0) {
		var all []string
		for _, ks := range seqs {
			all = append(all, ks.Seq)
		}
		sort.Strings(all)
		for i := 0; i+1 < len(all); i++ {
			if all[i] != all[i+1] && strings.HasPrefix(all[i+1], all[i]) {
				r.fail("C03/prefix", "prefix", "", 0, "description defines %q which is a proper prefix of %q", all[i], all[i+1])
			}
		}
		var tk []string
		for k := range tcell.VerifKeyTable(w.Scr) {
			tk = append(tk, k)
		}
		sort.Strings(tk)
		for i := 0; i+1 < len(tk); i++ {
			if strings.HasPrefix(tk[i+1], tk[i]) {
				r.fail("C03/prefix", "prefix", "", 0, "key table holds %q which is a proper prefix of %q", tk[i], tk[i+1])
			}
		}
		r.cases++
	}

	check1 := func(kind string, ks *keySeq, seq string, split int, accept func(string) bool, what string) {
		if !r.want(kind, seq, split) {
			return
		}
		_, all := r.decode(seq, split)
		if len(all) != 1 || !accept(all[0]) {
			tag := "C03/key"
			if kind == "xtermmod" {
				tag = "C03/modifier"
			}
			if kind == "alt" {
				tag = "C03/alt"
			}
			r.fail(tag, kind, seq, split, "%s %q split@%d decoded to %v", what, seq, split, all)
		}
	}

	// (2) every defined sequence, whole and split.
	for _, ks := range seqs {
		ks := ks
		splits := []int{0}
		if len(ks.Seq) > 1 {
			if thorough {
				for k := 1; k < len(ks.Seq); k++ {
					splits = append(splits, k)
				}
			} else {
				splits = append(splits, 1+r.rng.Intn(len(ks.Seq)-1))
			}
		}
		for _, sp := range splits {
			check1("field", ks, ks.Seq, sp, ks.accepts, "key "+strings.Join(ks.Fields, "/"))
		}
	}

	// (2b) the same sequences trickling in one byte per read with pauses
	// shorter than the escape timeout (the whole sequence taking longer than
	// it): still exactly one key
	for i, ks := range seqs {
		if len(ks.Seq) < 3 || (!thorough && i%6 != int(r.seed%6)) {
			continue
		}
		gap := []int{20, 30, 45}[r.rng.Intn(3)]
		for k := 0; k < len(ks.Seq); k++ {
			w.feedHold([]byte{ks.Seq[k]})
			if k+1 < len(ks.Seq) {
				w.S.Advance(hx.Ms(gap))
			}
		}
		w.settle()
		all := w.take()
		r.cases++
		if len(all) != 1 || !ks.accepts(all[0]) {
			r.fail("C03/key", "slow", ks.Seq, gap, "key %s arriving one byte per read, %d ms apart, decoded to %v", ks.String(), gap, all)
		}
	}

	// (3) xterm modifier encodings.
	var gk []string
	for s := range gen {
		gk = append(gk, s)
	}
	sort.Strings(gk)
	for _, s := range gk {
		exp := gen[s]
		sp := 0
		if r.rng.Intn(2) == 1 {
			sp = 1 + r.rng.Intn(len(s)-1)
		}
		check1("xtermmod", nil, s, sp, func(got string) bool { return got == keyDesc(exp.k, exp.m) },
			fmt.Sprintf("xterm-modified key (want key %d mod %d)", exp.k, exp.m))
	}

	// (4) control bytes and DEL.
	singles := map[string]*keySeq{}
	for _, ks := range seqs {
		if len(ks.Seq) == 1 {
			singles[ks.Seq] = ks
		}
	}
	for b := 0; b < 32; b++ {
		if b == 27 {
			continue
		}
		s := string([]byte{byte(b)})
		check1("ctrl", nil, s, 0, func(got string) bool {
			if got == ctrlDesc(byte(b)) {
				return true
			}
			if ks := singles[s]; ks != nil {
				return ks.accepts(got)
			}
			return false
		}, "control byte")
	}
	check1("ctrl", nil, "\x7f", 0, func(got string) bool { return got == keyDesc(tcell.KeyBackspace2, 0) }, "DEL")

	// (5) lone ESC: nothing while the clock is held, Esc once it passes.
	if r.want("esc", "\x1b", 0) {
		held, all := r.decode("\x1b", 0)
		if len(held) != 0 {
			r.fail("C03/esc-timeout", "esc", "\x1b", 0, "lone ESC produced %v before any time had passed", held)
		} else if len(all) != 1 || all[0] != keyDesc(tcell.KeyEsc, 0) {
			r.fail("C03/esc-timeout", "esc", "\x1b", 0, "lone ESC decoded to %v after the timeout", all)
		}
	}

	// (6) ESC immediately followed by a key: that key with Alt.
	defined := map[string]*keySeq{}
	for _, ks := range seqs {
		defined[ks.Seq] = ks
	}
	altOf := func(ks *keySeq) func(string) bool {
		return func(got string) bool {
			if d := defined["\x1b"+ks.Seq]; d != nil && d.accepts(got) {
				return true
			}
			if g, ok := gen["\x1b"+ks.Seq]; ok && got == keyDesc(g.k, g.m) {
				return true
			}
			if ks.Seq == "\x7f" {
				return got == keyDesc(tcell.KeyBackspace2, tcell.ModAlt)
			}
			if ks.Alias != nil {
				return got == keyDesc(ks.Alias.k, ks.Alias.m|tcell.ModAlt)
			}
			for _, a := range ks.Accept {
				if got == keyDesc(a.k, a.m|tcell.ModAlt) {
					return true
				}
			}
			if len(ks.Seq) == 1 && ks.Seq[0] < ' ' {
				return got == withAlt(ctrlDesc(ks.Seq[0]))
			}
			return false
		}
	}
	for i, ks := range seqs {
		if !thorough && i%4 != int(r.seed%4) {
			continue
		}
		check1("alt", ks, "\x1b"+ks.Seq, 0, altOf(ks), "ESC + key "+strings.Join(ks.Fields, "/"))
	}
	for _, c := range []byte{'a', 'Z', '1', ' ', '~'} {
		c := c
		check1("alt", nil, "\x1b"+string([]byte{c}), 0, func(got string) bool { return got == runeDesc(rune(c), tcell.ModAlt) }, "ESC + rune")
	}
	// ESC + a multi-byte character, whole and cut anywhere (also inside the character)
	for _, c := range []rune{'é', '€'} {
		c := c
		s := "\x1b" + string(c)
		for sp := 0; sp < len(s); sp++ {
			if !thorough && sp != 0 && sp != 2 {
				continue
			}
			check1("alt", nil, s, sp, func(got string) bool { return got == runeDesc(c, tcell.ModAlt) }, "ESC + multi-byte rune")
		}
	}

	// (6b) the same keys without the prefix again: an Alt-prefixed decode
	// must leave nothing behind.
	for i, ks := range seqs {
		if !thorough && i%4 != int(r.seed%4) {
			continue
		}
		check1("field-after-alt", ks, ks.Seq, 0, ks.accepts, "key (after its Alt-prefixed form) "+strings.Join(ks.Fields, "/"))
	}
	for b := 1; b < 32; b++ {
		if b == 27 {
			continue
		}
		s := string([]byte{byte(b)})
		check1("alt", nil, "\x1b"+s, 0, func(got string) bool {
			if got == withAlt(ctrlDesc(byte(b))) {
				return true
			}
			if d := defined["\x1b"+s]; d != nil && d.accepts(got) {
				return true
			}
			if ks := singles[s]; ks != nil {
				return altOf(ks)(got)
			}
			return false
		}, "ESC + control byte")
		check1("ctrl-after-alt", nil, s, 0, func(got string) bool {
			if got == ctrlDesc(byte(b)) {
				return true
			}
			if ks := singles[s]; ks != nil {
				return ks.accepts(got)
			}
			return false
		}, "control byte (after its Alt-prefixed form)")
	}

	// (7) concatenations decode to the concatenation.
	if len(seqs) > 1 {
		n := 40
		if thorough {
			n = 400
		}
		for i := 0; i < n; i++ {
			k := 2 + r.rng.Intn(2)
			var parts []*keySeq
			seq := ""
			for j := 0; j < k; j++ {
				ks := seqs[r.rng.Intn(len(seqs))]
				parts = append(parts, ks)
				seq += ks.Seq
			}
			sp := r.rng.Intn(len(seq))
			if !r.want("concat", seq, sp) {
				continue
			}
			_, all := r.decode(seq, sp)
			ok := len(all) == len(parts)
			if ok {
				for j := range parts {
					if !parts[j].accepts(all[j]) {
						ok = false
					}
				}
			}
			if !ok {
				var names []string
				for _, p := range parts {
					names = append(names, p.String())
				}
				r.fail("C03/concat", "concat", seq, sp, "concatenation %s split@%d decoded to %v", strings.Join(names, " + "), sp, all)
			}
		}
	}
	// (8) type-ahead: a dozen keys arrive while the application is not
	// polling (the event queue fills and the main loop falls behind the
	// reader), followed by two more reads, the first of which ends inside a
	// sequence; simulated time passes before polling resumes.  Everything
	// had arrived before the first byte was looked at, so the result is the
	// concatenation.
	if len(seqs) > 1 {
		n := 6
		if thorough {
			n = 60
		}
		for i := 0; i < n; i++ {
			var parts []*keySeq
			var chunks [][]byte
			head := ""
			for j := 0; j < 11+r.rng.Intn(3); j++ {
				ks := seqs[r.rng.Intn(len(seqs))]
				parts = append(parts, ks)
				head += ks.Seq
			}
			a, b := seqs[r.rng.Intn(len(seqs))], seqs[r.rng.Intn(len(seqs))]
			parts = append(parts, a, b)
			cut := 0
			if len(a.Seq) > 1 {
				cut = 1 + r.rng.Intn(len(a.Seq)-1)
			}
			chunks = append(chunks, []byte(head+a.Seq[:cut]), []byte(a.Seq[cut:]), []byte(b.Seq))
			ms := []int{0, 60, 200}[r.rng.Intn(3)]
			seq := head + a.Seq + b.Seq
			w.feedBurst(chunks, ms)
			w.settle()
			all := w.take()
			r.cases++
			ok := len(all) == len(parts)
			if ok {
				for j := range parts {
					if !parts[j].accepts(all[j]) {
						ok = false
					}
				}
			}
			if !ok {
				var names []string
				for _, p := range parts {
					names = append(names, p.String())
				}
				r.fail("C03/concat", "burst", seq, cut, "type-ahead %s read as %d+%d+%d bytes while the application was not polling (%d ms) decoded to %v", strings.Join(names, " + "), len(chunks[0]), len(chunks[1]), len(chunks[2]), ms, all)
			}
		}
	}
	// (9) a sequence cut short by Suspend: the bytes already read are gone
	// with the suspension, and what arrives after Resume is decoded on its
	// own - the last byte of a key is then just that byte.
	{
		var srErr error
		for i, ks := range seqs {
			if len(ks.Seq) < 2 || (!thorough && i%8 != int(r.seed%8)) {
				continue
			}
			last := ks.Seq[len(ks.Seq)-1]
			w.feedHold([]byte(ks.Seq[:len(ks.Seq)-1]))
			before := w.take()
			w.runTo(w.S.Spawn("suspend-resume", func() {
				_ = w.Scr.Suspend()
				srErr = w.Scr.Resume()
			}))
			w.feedHold([]byte{last})
			w.settle()
			all := w.take()
			r.cases++
			want := runeDesc(rune(last), 0)
			if last < ' ' {
				want = ctrlDesc(last)
			} else if last == 0x7f {
				want = keyDesc(tcell.KeyBackspace2, 0)
			}
			okSingle := len(all) == 1 && (all[0] == want || (singles[string([]byte{last})] != nil && singles[string([]byte{last})].accepts(all[0])))
			if srErr != nil || !okSingle {
				r.fail("C03/key", "suspend-cut", ks.Seq, 0, "key %s: all but its last byte arrived (events so far %v), then Suspend and Resume (error %v), then the last byte %q: decoded to %v, expected just %s", ks.String(), before, srErr, string([]byte{last}), all, want)
			}
		}
	}
	// (10) ESC typed twice, then quiet: whatever the two bytes become, the
	// decoder is back in its initial state once the timeout has passed - a
	// key or a rune typed later carries no Alt and no extra event.
	{
		for rep := 0; rep < 2; rep++ {
			held, first := r.decode("\x1b\x1b", rep)
			_ = held
			for _, e := range first {
				if e != keyDesc(tcell.KeyEsc, 0) && e != keyDesc(tcell.KeyEsc, tcell.ModAlt) {
					r.fail("C03/esc-timeout", "escesc", "\x1b\x1b", rep, "ESC ESC (split@%d) and the timeout decoded to %v", rep, first)
				}
			}
			if len(first) == 0 || len(first) > 2 {
				r.fail("C03/esc-timeout", "escesc", "\x1b\x1b", rep, "ESC ESC (split@%d) and the timeout decoded to %v", rep, first)
			}
			_, all := r.decode("x", 0)
			if len(all) != 1 || all[0] != runeDesc('x', 0) {
				r.fail("C03/alt", "escesc-then-rune", "\x1b\x1b", rep, "ESC ESC, the timeout (events %v), then 'x' typed later decoded to %v", first, all)
			}
			if len(seqs) > 0 {
				r.decode("\x1b\x1b", rep)
				ks := seqs[r.rng.Intn(len(seqs))]
				_, all = r.decode(ks.Seq, 0)
				if len(all) != 1 || !ks.accepts(all[0]) {
					r.fail("C03/alt", "escesc-then-key", ks.Seq, rep, "ESC ESC, the timeout, then key %s typed later decoded to %v", ks.String(), all)
				}
			}
		}
	}
	if w.stall {
		r.fail("C03/key", "stall", "", 0, "input pipeline did not reach quiescence within the step budget")
	}
	hx.St.Record(w.S, map[string]int{"map_order": 1, "read_split": r.cases}, func() interface{} {
		return map[string]interface{}{"term": r.term, "map_order_mode": r.mode, "sequences_defined": len(seqs), "xterm_modifier_sequences": len(gen), "decodes": r.cases}
	})
	hx.St.Enumerated["C03 key sequences decoded"] += r.cases
	return err
}

func (r *c03run) runPolled() error {
	// (11) a tty that is polled (Read returns no bytes every 10 ms while
	// idle, as a serial line with VMIN=0 does): reads that bring nothing are
	// not input - the escape timeout still runs out.
	{
		pcfg := hx.Config{Term: r.term, W: 80, H: 24, Go123: r.go123, GapScale: 1, MapMode: r.mode, MapSeed: r.seed, AltScreen: true, Polling: true}
		pw, perr := newIW(pcfg, hx.RandomChooser(hx.NewRng(r.rseed^0x9011), 3000))
		if perr != nil {
			return perr
		}
		seqs, _ := keySeqs(pw.Ti)
		pw.feedHold([]byte("\x1b"))
		held := append([]string(nil), pw.evs...)
		pw.settle()
		all := pw.take()
		r.cases++
		if len(held) != 0 {
			r.fail("C03/esc-timeout", "polled-esc", "\x1b", 0, "polled tty: lone ESC produced %v before the timeout", held)
		} else if len(all) != 1 || all[0] != keyDesc(tcell.KeyEsc, 0) {
			r.fail("C03/esc-timeout", "polled-esc", "\x1b", 0, "polled tty (empty reads every 10 ms): lone ESC decoded to %v half a second later", all)
		}
		for i := 0; i < 3 && len(seqs) > 0; i++ {
			ks := seqs[r.rng.Intn(len(seqs))]
			cut := 0
			if len(ks.Seq) > 1 {
				cut = 1 + r.rng.Intn(len(ks.Seq)-1)
				pw.feedHold([]byte(ks.Seq[:cut]))
			}
			pw.feedHold([]byte(ks.Seq[cut:]))
			pw.settle()
			all := pw.take()
			r.cases++
			if len(all) != 1 || !ks.accepts(all[0]) {
				r.fail("C03/key", "polled-key", ks.Seq, cut, "polled tty: key %s split@%d decoded to %v", ks.String(), cut, all)
			}
			// ESC, a pause longer than the timeout, then the key: Esc, then the key without Alt
			pw.feedHold([]byte("\x1b"))
			pw.settle()
			pw.feedHold([]byte(ks.Seq))
			pw.settle()
			all = pw.take()
			r.cases++
			if len(all) != 2 || all[0] != keyDesc(tcell.KeyEsc, 0) || !ks.accepts(all[1]) {
				r.fail("C03/esc-timeout", "polled-esc-pause-key", ks.Seq, 0, "polled tty: ESC, half a second, then key %s decoded to %v", ks.String(), all)
			}
		}
		if pw.stall {
			r.fail("C03/key", "stall", "", 1, "polled tty: input pipeline exhausted the step budget")
		}
		pn, cerr := pw.finish()
		for _, p := range pn {
			r.fail("C03/key", "panic", "", 1, "polled tty: panic while decoding: %s", p)
		}
		if cerr != nil {
			return cerr
		}
	}
	return nil
}

// runEdited: the application hands the screen its own edited copy of the
// description, under the same name: F1..F4 send CSI 11~..14~ (where that is
// not what they send anyway and clashes with nothing else).  Every screen
// decodes by the description it was given.
func (r *c03run) runEdited() error {
	base := hx.Term(r.term, false)
	seqs0, _ := keySeqs(base)
	edits := map[string]string{}
	for i, f := range []string{"KeyF1", "KeyF2", "KeyF3", "KeyF4"} {
		seq := fmt.Sprintf("\x1b[1%d~", i+1)
		clash := false
		for _, ks := range seqs0 {
			if strings.HasPrefix(ks.Seq, seq) || strings.HasPrefix(seq, ks.Seq) {
				clash = true
			}
		}
		if !clash {
			edits[f] = seq
		}
	}
	if len(edits) == 0 {
		return nil
	}
	hx.TiEdit = func(ti *terminfo.Terminfo) {
		for f, seq := range edits {
			reflect.ValueOf(ti).Elem().FieldByName(f).SetString(seq)
		}
	}
	defer func() { hx.TiEdit = nil }()
	cfg := hx.Config{Term: r.term, W: 80, H: 24, Go123: r.go123, GapScale: 1, MapMode: r.mode, MapSeed: r.seed, AltScreen: true}
	w, err := newIW(cfg, &simrt.Chooser{})
	if err != nil {
		return err
	}
	for i, f := range []string{"KeyF1", "KeyF2", "KeyF3", "KeyF4"} {
		seq, ok := edits[f]
		if !ok {
			continue
		}
		w.feedHold([]byte(seq))
		w.settle()
		all := w.take()
		r.cases++
		if want := keyDesc(tcell.KeyF1+tcell.Key(i), 0); len(all) != 1 || all[0] != want {
			r.fail("C03/key", "edited", seq, 0, "a screen given an edited copy of the description (same name, %s = %q) decoded %q to %v", f, seq, seq, all)
		}
	}
	pn, cerr := w.finish()
	for _, p := range pn {
		r.fail("C03/key", "panic", "", 2, "edited description: panic while decoding: %s", p)
	}
	return cerr
}

func TestC03(t *testing.T) {
	names := hx.TermNames()
	wi, wn := hx.Worker()
	var only map[string]interface{}
	if cf := hx.LoadCase(); cf != nil {
		only = cf.Case
		wi, wn = 0, 1
	}
	type modeSpec struct {
		mode int
		seed uint64
	}
	seed := hx.Seed()
	modes := []modeSpec{{0, 0}, {3, 0}, {4, seed}}
	if hx.Thorough() {
		modes = []modeSpec{{0, 0}, {1, 0}, {2, 0}, {3, 0}, {4, seed}, {4, seed + 1}, {4, seed + 2}, {4, seed*7 + 3}}
		// further seeded iteration orders and schedules, until the budget
		// runs out (every one replays from its case file)
		for k := uint64(1); k <= 160; k++ {
			modes = append(modes, modeSpec{4, seed*1000003 + 17 + k})
		}
	}
	var fails []c03fail
	idx := 0
	for _, name := range names {
		for mi, m := range modes {
			idx++
			if only != nil {
				if only["term"] != name || int(only["mapmode"].(float64)) != m.mode || uint64(only["mapseed"].(float64)) != m.seed {
					continue
				}
			} else if idx%wn != wi {
				continue
			}
			if hx.PastDeadline() {
				hx.St.Notes = append(hx.St.Notes, "deadline reached before the enumeration finished")
				break
			}
			hx.Arm("C03 " + name)
			r := &c03run{term: name, mode: m.mode, seed: m.seed, go123: mi%2 == 0, only: only, thor: hx.Thorough(), rseed: seed*1000 + uint64(idx)}
			if only != nil {
				r.go123 = only["go123"].(bool)
				r.thor = only["thorough"].(bool)
				r.rseed = uint64(only["rngseed"].(float64))
			}
			r.rng = hx.NewRng(r.rseed)
			if err := r.run(); err != nil {
				hx.Disarm()
				t.Fatalf("HARNESS: %s: %v", name, err)
			}
			if r.mode == 3 || r.mode == 1 {
				if err := r.runEdited(); err != nil {
					hx.Disarm()
					t.Fatalf("HARNESS: %s (edited description): %v", name, err)
				}
			}
			if r.mode == 4 || r.mode == 2 {
				if err := r.runPolled(); err != nil {
					hx.Disarm()
					t.Fatalf("HARNESS: %s (polled tty): %v", name, err)
				}
			}
			hx.Disarm()
			fails = append(fails, r.fails...)
		}
	}
	if len(fails) > 0 {
		seen := map[string]bool{}
		for _, f := range fails {
			key := f.tag + "|" + f.msg
			if seen[key] {
				continue
			}
			seen[key] = true
			t.Log(hx.ReportCase("C03", "TestC03", f.tag, f.msg, f.c))
		}
		t.FailNow()
	}
}
