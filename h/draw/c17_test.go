package draw

import (
	"fmt"
	"strings"
	"testing"
	"unicode/utf8"

	"github.com/gdamore/tcell/v2"
	"github.com/gdamore/tcell/v2/terminfo"
	"golang.org/x/text/encoding"
	"pgregory.net/rapid"
	"verif.local/hx"
	"verif.local/lm"
	"verif.local/simrt"
	"verif.local/vt"
)

// C17: in a legacy character set each cell is written as the charset's
// encoding of its rune if representable, else as the terminal's alternate
// character set glyph, else the registered fallback, else '?'.

// acsNames is terminfo(5)'s table of VT100 alternate-character-set names,
// keyed by the rune tcell's public Rune* constants give each glyph.
var acsNames = map[rune]byte{
	tcell.RuneRArrow: '+', tcell.RuneLArrow: ',', tcell.RuneUArrow: '-', tcell.RuneDArrow: '.', tcell.RuneBlock: '0',
	tcell.RuneDiamond: '`', tcell.RuneCkBoard: 'a', tcell.RuneDegree: 'f', tcell.RunePlMinus: 'g', tcell.RuneBoard: 'h',
	tcell.RuneLantern: 'i', tcell.RuneLRCorner: 'j', tcell.RuneURCorner: 'k', tcell.RuneULCorner: 'l', tcell.RuneLLCorner: 'm',
	tcell.RunePlus: 'n', tcell.RuneS1: 'o', tcell.RuneS3: 'p', tcell.RuneHLine: 'q', tcell.RuneS7: 'r', tcell.RuneS9: 's',
	tcell.RuneLTee: 't', tcell.RuneRTee: 'u', tcell.RuneBTee: 'v', tcell.RuneTTee: 'w', tcell.RuneVLine: 'x',
	tcell.RuneLEqual: 'y', tcell.RuneGEqual: 'z', tcell.RunePi: '{', tcell.RuneNEqual: '|', tcell.RuneSterling: '}', tcell.RuneBullet: '~',
}

// acsByte returns the byte the description's acsc maps the rune's VT100
// name to (ok=false if the description has no glyph for it).
func acsByte(acsc string, enterAcs string, r rune) (byte, bool) {
	name, ok := acsNames[r]
	if !ok || enterAcs == "" {
		return 0, false
	}
	for i := 0; i+1 < len(acsc); i += 2 {
		if acsc[i] == name {
			return acsc[i+1], true
		}
	}
	return 0, false
}

// encodable says whether the charset can carry the rune (x/text coder,
// trusted base; the encoder's substitution byte counts as "cannot").
func encodable(cs encoding.Encoding, r rune) bool {
	if r < 0 || r > 0x10ffff || (r >= 0xd800 && r < 0xe000) {
		return false
	}
	if cs == nil {
		return true
	}
	e := cs.NewEncoder()
	b, err := e.Bytes([]byte(string(r)))
	if err != nil || len(b) == 0 || (len(b) == 1 && b[0] == 0x1a && r != 0x1a) {
		return false
	}
	back, err := cs.NewDecoder().Bytes(b)
	return err == nil && string(back) == string(r)
}

// legacyGlyphOK is the C17 per-cell oracle, called when the base rune the
// terminal shows differs from the rune stored in the cell.
func legacyGlyphOK(w *dw, c *vt.Cell, g lm.Glyph) bool {
	r := g.R
	if encodable(w.charset, r) {
		return false // must be shown as itself
	}
	if b, ok := acsByte(w.Ti.AltChars, w.Ti.EnterAcs, r); ok {
		return c.Alt && c.AltB == b && c.Width == 1
	}
	if c.Alt {
		return false
	}
	if fb, ok := w.fallbacks[r]; ok {
		fr, n := utf8.DecodeRuneInString(fb)
		return n == len(fb) && c.R == fr
	}
	return c.R == '?'
}

// canDisplay is the statement's definition of CanDisplay.
func (w *dw) canDisplay(r rune, withFallbacks bool) bool {
	if encodable(w.charset, r) {
		return true
	}
	if _, ok := acsByte(w.Ti.AltChars, w.Ti.EnterAcs, r); ok {
		return true
	}
	if withFallbacks {
		_, ok := w.fallbacks[r]
		return ok
	}
	return false
}

var c17Locales []string

func legacyLocales() []string {
	if c17Locales != nil {
		return c17Locales
	}
	seen := map[string]bool{}
	for _, name := range tcell.VerifEncodings() {
		n := strings.ToLower(name)
		if strings.Contains(n, "2022") || n == "gb2312" || strings.HasPrefix(n, "hz") || strings.HasPrefix(n, "utf") {
			continue
		}
		enc := tcell.GetEncoding(name)
		id := fmt.Sprintf("%T/%v", enc, enc)
		if seen[id] {
			continue
		}
		seen[id] = true
		c17Locales = append(c17Locales, "en_US."+name)
	}
	c17Locales = append(c17Locales, "C", "en_US.UTF-8")
	return c17Locales
}

func charsetOfLocale(locale string) encoding.Encoding {
	if locale == "C" || locale == "POSIX" {
		return tcell.GetEncoding("US-ASCII")
	}
	return charsetOf(locale)
}

// runes worth drawing in a legacy locale: representable ones, ACS glyphs,
// fallback candidates, unrepresentable ones.
func drawLegacyRune(t *rapid.T, members []rune) rune {
	switch rapid.IntRange(0, 9).Draw(t, "lrclass") {
	case 0, 1, 2:
		return members[rapid.IntRange(0, len(members)-1).Draw(t, "member")]
	case 3, 4:
		keys := []rune{tcell.RuneULCorner, tcell.RuneHLine, tcell.RuneVLine, tcell.RuneBullet, tcell.RuneSterling, tcell.RuneDegree,
			tcell.RuneRArrow, tcell.RuneBlock, tcell.RuneDiamond, tcell.RunePi, tcell.RuneNEqual, tcell.RuneBoard, tcell.RuneLantern, tcell.RuneS1}
		return rapid.SampledFrom(keys).Draw(t, "acsrune")
	case 5:
		if r := rune(rapid.IntRange(0x20, 0x7e).Draw(t, "ascii")); r != '$' {
			return r
		}
		return '#'
	case 6:
		return rapid.SampledFrom([]rune{0x4e00, 0x4e8c, 0xac00, 0x3042, 0x1f600}).Draw(t, "wide")
	case 7:
		return rapid.SampledFrom([]rune{0x2603, 0x20ac, 0x0416, 0xe9, 0x3b1, 0x5d0}).Draw(t, "misc")
	default:
		return rune(rapid.IntRange(0xa0, 0x2fff).Draw(t, "bmp"))
	}
}

var memberCache = map[string][]rune{}

func membersOf(locale string) []rune {
	if m, ok := memberCache[locale]; ok {
		return m
	}
	cs := charsetOfLocale(locale)
	var out []rune
	for r := rune(0x20); r < 0x10000; r++ {
		if r >= 0x7f && r < 0xa0 || (r >= 0xd800 && r < 0xe000) || r == 0xfffd || r == '$' {
			continue // ('$' is never drawn: see drawRune)
		}
		if encodable(cs, r) && lm.Width(r) >= 1 {
			out = append(out, r)
			if cs == nil && len(out) > 3000 {
				break
			}
		}
	}
	memberCache[locale] = out
	return out
}

// pristineFallbacks is the package-level default table as the library
// ships it (taken before any screen exists).  Registrations are made on a
// screen and are that screen's: the table itself must never change.
var pristineFallbacks = func() map[rune]string {
	m := map[rune]string{}
	for k, v := range tcell.RuneFallbacks {
		m[k] = v
	}
	return m
}()

func fallbackTableDiff() string {
	for k, v := range pristineFallbacks {
		if got, ok := tcell.RuneFallbacks[k]; !ok {
			return fmt.Sprintf("the default for %q (U+%04X) was removed", k, k)
		} else if got != v {
			return fmt.Sprintf("the default for %q (U+%04X) changed from %q to %q", k, k, v, got)
		}
	}
	for k, v := range tcell.RuneFallbacks {
		if _, ok := pristineFallbacks[k]; !ok {
			return fmt.Sprintf("%q (U+%04X) -> %q was added", k, k, v)
		}
	}
	return ""
}

func runC17(t *rapid.T) {
	if hx.PastDeadline() {
		return
	}
	// every run starts from the shipped table, whatever an earlier run did to it
	for k := range tcell.RuneFallbacks {
		delete(tcell.RuneFallbacks, k)
	}
	for k, v := range pristineFallbacks {
		tcell.RuneFallbacks[k] = v
	}
	fam := ecmaFamily()
	cfg := hx.DrawConfig(t, fam, 10, 4)
	cfg.Locale = rapid.SampledFrom(legacyLocales()).Draw(t, "locale")
	cfg.LocaleVia = rapid.IntRange(0, 4).Draw(t, "localevia")
	members := membersOf(cfg.Locale)
	ch := hx.DrawChooser(t, 40)
	// the application may hand the screen its own edited copy of the
	// description, under the same name: without an alternate character set,
	// or with one that has only the line-drawing glyphs.  A screen follows
	// the description it was given.
	switch rapid.IntRange(0, 5).Draw(t, "editedti") {
	case 0:
		hx.TiEdit = func(ti *terminfo.Terminfo) { ti.AltChars = "" }
	case 1:
		hx.TiEdit = func(ti *terminfo.Terminfo) {
			keep := ""
			for i := 0; i+1 < len(ti.AltChars); i += 2 {
				if strings.IndexByte("jklmnqtuvwx", ti.AltChars[i]) >= 0 {
					keep += ti.AltChars[i : i+2]
				}
			}
			ti.AltChars = keep
		}
	}
	defer func() { hx.TiEdit = nil }()
	hx.Arm("C17")
	defer hx.Disarm()
	w, err := newDW(cfg, ch, "C17")
	if err != nil {
		t.Fatalf("HARNESS: %v", err)
	}
	w.charset = charsetOfLocale(cfg.Locale)
	w.T.Dec = w.charset
	if w.charset != nil {
		w.T = vtFor(w)
	}
	for k, v := range pristineFallbacks {
		w.fallbacks[k] = v
	}
	type lop struct {
		Kind string
		X, Y int
		R    rune
		Comb []rune
		FB   string
		With bool
	}
	n := rapid.IntRange(1, 30).Draw(t, "nops")
	var ops []lop
	for i := 0; i < n; i++ {
		switch rapid.IntRange(0, 10).Draw(t, "lop") {
		case 10:
			// the terminal is lent to another program, which leaves the
			// character-set designations at their defaults
			ops = append(ops, lop{Kind: "suspend-resume"})
		case 0, 1, 2, 3, 4:
			o := lop{Kind: "set", X: rapid.IntRange(0, cfg.W-1).Draw(t, "x"), Y: rapid.IntRange(0, cfg.H-1).Draw(t, "y"), R: drawLegacyRune(t, members)}
			if rapid.IntRange(0, 6).Draw(t, "comb") == 0 {
				o.Comb = []rune{rapid.SampledFrom(combMarks).Draw(t, "mark")}
			}
			ops = append(ops, o)
		case 5, 6:
			ops = append(ops, lop{Kind: "show"})
			w.S.Note(hx.Fingerprint(cfg, ops))
		case 7:
			o := lop{Kind: "register", R: drawLegacyRune(t, members), FB: rapid.SampledFrom([]string{"x", "#", "=", "%"}).Draw(t, "fb")}
			if rapid.IntRange(0, 3).Draw(t, "fbcomb") == 0 {
				// a substitute registered for a combining mark: marks the
				// charset cannot carry are dropped, never spelled out next to
				// the base character (the cell keeps its width)
				o.R = rapid.SampledFrom(combMarks).Draw(t, "fbmark")
			}
			if lm.Width(o.R) == 2 && rapid.Bool().Draw(t, "fbwide") {
				o.FB += "~" // "the display string should be the same width as the original rune"
			}
			// (a one-column substitute for a wide rune is tolerated by the
			// library: the second column is then unspecified, but the cells
			// to the right must still land in their own columns)
			ops = append(ops, o)
		case 8:
			ops = append(ops, lop{Kind: "unregister", R: drawLegacyRune(t, members)})
		default:
			ops = append(ops, lop{Kind: "candisplay", R: drawLegacyRune(t, members), With: rapid.Bool().Draw(t, "withfb")})
		}
	}
	ops = append(ops, lop{Kind: "show"})
	s := w.S
	// registrations made before Init count like any other
	preReg := rapid.SampledFrom([]string{"", "", "reg", "unreg"}).Draw(t, "preinit")
	preRune := rapid.SampledFrom([]rune{tcell.RuneHLine, tcell.RuneVLine, tcell.RuneULCorner, tcell.RuneBullet, tcell.RuneDegree, 0x2603}).Draw(t, "preinitrune")
	s.Spawn("app", func() {
		switch preReg {
		case "reg":
			w.Scr.RegisterRuneFallback(preRune, "!")
			w.fallbacks[preRune] = "!"
		case "unreg":
			w.Scr.UnregisterRuneFallback(preRune)
			delete(w.fallbacks, preRune)
		}
		if err := w.Scr.Init(); err != nil {
			w.initErr = err
			return
		}
		if got := w.Scr.CharacterSet(); w.charset != nil && charsetOfLocale("x."+got) == nil && tcell.GetEncoding(got) == nil {
			w.fail("C17/glyph", "screen reports unknown character set %q for locale %q", got, cfg.Locale)
		}
		for _, o := range ops {
			if w.Fail != nil {
				return
			}
			switch o.Kind {
			case "set":
				w.Scr.SetContent(o.X, o.Y, o.R, o.Comb, tcell.StyleDefault)
				w.M.SetContent(o.X, o.Y, o.R, o.Comb, lm.Style{})
			case "register":
				w.Scr.RegisterRuneFallback(o.R, o.FB)
				w.fallbacks[o.R] = o.FB
				// takes effect at the next draw: force the affected cells to be redrawn
				for i := range w.M.Cells {
					if w.M.Cells[i].R == o.R {
						x, y := i%w.M.W, i/w.M.W
						w.Scr.SetContent(x, y, ' ', nil, tcell.StyleDefault)
						w.Scr.SetContent(x, y, o.R, w.M.Cells[i].Comb, tcell.StyleDefault)
					}
				}
			case "unregister":
				w.Scr.UnregisterRuneFallback(o.R)
				delete(w.fallbacks, o.R)
				for i := range w.M.Cells {
					if w.M.Cells[i].R == o.R {
						x, y := i%w.M.W, i/w.M.W
						w.Scr.SetContent(x, y, ' ', nil, tcell.StyleDefault)
						w.Scr.SetContent(x, y, o.R, w.M.Cells[i].Comb, tcell.StyleDefault)
					}
				}
			case "candisplay":
				got, want := w.Scr.CanDisplay(o.R, o.With), w.canDisplay(o.R, o.With)
				if got != want {
					w.fail("C17/candisplay", "CanDisplay(%q U+%04X, %v) = %v in %s on %s; the rune %s", o.R, o.R, o.With, got, cfg.Locale, cfg.Term, w.why(o.R))
				}
			case "show":
				w.block++
				w.Scr.Show()
				w.afterShowLegacy()
			case "suspend-resume":
				_ = w.Scr.Suspend()
				// what the other program left behind: ASCII in G0 and G1, G0 shifted in
				w.T.G = [2]byte{'B', 'B'}
				w.T.Shift = 0
				w.T.PCFont = false
				if err := w.Scr.Resume(); err != nil {
					w.fail("C17/stall", "Resume failed: %v", err)
					return
				}
				w.Tty.Faults.Inc("suspend_resume")
				// applications redraw after taking the terminal back
				w.Scr.Clear()
				w.M.Fill(' ', lm.Style{})
				w.M.ResetPaint()
			}
		}
	})
	s.Spawn("poller", func() {
		for w.initErr == nil && w.Scr.PollEvent() != nil {
		}
	})
	st := s.Run()
	if w.initErr != nil {
		t.Fatalf("HARNESS: Init: %v", w.initErr)
	}
	if app := s.Find("app"); st != simrt.Budget && !app.Done() && app.Panic == nil {
		w.fail("C17/stall", "stuck: %v", s.Blocked())
	}
	for _, pn := range w.Panics() {
		w.fail("C17/panic", "panic: %s", pn)
	}
	if d := fallbackTableDiff(); d != "" {
		w.fail("C17/fallback-table", "a registration made on one screen changed the package-level RuneFallbacks table, which every other screen starts from: %s", d)
	}
	hx.St.Record(s, map[string]int{"fallback_change": 1}, func() interface{} {
		return map[string]interface{}{"config": cfg.String(), "ops": len(ops), "bytes_written": w.Tty.WriteOut}
	})
	fail := w.Fail
	sig := s.Hash()
	tr := s.Trace
	if err := w.Close(); err != nil {
		t.Fatalf("HARNESS: %v", err)
	}
	if fail != nil && (strings.HasPrefix(fail.Tag, "C17/") || strings.HasPrefix(fail.Tag, "C09/")) {
		tag := fail.Tag
		if strings.HasPrefix(tag, "C09/") {
			tag = "C17/raw-utf8"
		}
		fail.Tag = tag
		var os []string
		for _, o := range ops {
			os = append(os, fmt.Sprintf("%+v", o))
		}
		hx.WriteTrace("C17", fail, map[string]interface{}{"config": cfg.String(), "ops": os}, tr, nil, sig)
		t.Fatalf("VIOLATION %s: [%s %s] %s", tag, cfg.Term, cfg.Locale, fail.Msg)
	}
}

func (w *dw) why(r rune) string {
	b, acs := acsByte(w.Ti.AltChars, w.Ti.EnterAcs, r)
	_, fb := w.fallbacks[r]
	return fmt.Sprintf("encodable=%v acs=%v(%q) fallback=%v", encodable(w.charset, r), acs, b, fb)
}

// afterShowLegacy compares the display in a legacy locale.
func (w *dw) afterShowLegacy() {
	if len(w.T.Errors) > 0 {
		w.fail("C17/raw-utf8", "the terminal (decoding %s) rejected the output: %s", w.Cfg.Locale, strings.Join(w.T.Errors, "; "))
		return
	}
	m := w.M
	for y := 0; y < m.H; y++ {
		row := m.Row(y)
		for x := 0; x < m.W; x++ {
			g := row[x]
			c := w.T.At(x, y)
			if g.Hidden {
				// second column of a wide rune: a continuation, or the blank of "? "
				continue
			}
			if g.Width == 2 && !encodable(w.charset, g.R) {
				// an unrepresentable wide rune: substitute plus a blank, two columns
				second := ' '
				ok := false
				anySecond := false
				if fb, has := w.fallbacks[g.R]; has && len(fb) == 2 {
					second = rune(fb[1])
					ok = c.R == rune(fb[0]) && !c.Alt
				} else if has && len(fb) == 1 {
					if _, acs := acsByte(w.Ti.AltChars, w.Ti.EnterAcs, g.R); !acs {
						ok = c.R == rune(fb[0]) && !c.Alt
						anySecond = true // narrow substitute: the second column is not defined
					} else {
						ok = legacyGlyphOK(w, c, g)
					}
				} else {
					ok = legacyGlyphOK(w, c, g)
				}
				ok = ok && c.Width == 1 && x+1 < m.W && (anySecond || (w.T.At(x+1, y).R == second && w.T.At(x+1, y).Width == 1))
				if !ok {
					w.fail("C17/width", "cell (%d,%d) holds wide %q (U+%04X: %s): terminal shows %q then %q", x, y, g.R, g.R, w.why(g.R), c.Text(), w.T.At(x+1, y).Text())
					return
				}
				continue
			}
			if c.Width != g.Width {
				w.fail("C17/width", "cell (%d,%d) holds %q (U+%04X): terminal glyph %q occupies %d columns, expected %d", x, y, g.R, g.R, c.Text(), c.Width, g.Width)
				return
			}
			if c.R != g.R || c.Alt {
				if !legacyGlyphOK(w, c, g) {
					w.fail("C17/glyph", "cell (%d,%d) holds %q (U+%04X: %s): terminal shows %q (alt=%v byte %q)", x, y, g.R, g.R, w.why(g.R), c.Text(), c.Alt, c.AltB)
					return
				}
			}
		}
	}
}

func TestC17(t *testing.T) { rapid.Check(t, runC17) }

// vtFor makes the reference terminal for a world whose locale was set
// after newDW (legacy character set).
func vtFor(w *dw) *vt.Term {
	t := vt.New(w.Cfg.W, w.Cfg.H, w.charset)
	t.PCAlt = strings.Contains(w.Ti.EnterAcs, "\x1b[11m") || strings.Contains(w.Ti.EnterAcs, "\x1b[12m")
	return t
}
