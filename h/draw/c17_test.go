package draw

import (
	"verif.local/lm"
	"verif.local/vt"
)

// legacyGlyphOK is the C17 per-cell oracle (legacy character sets).
func legacyGlyphOK(w *dw, c *vt.Cell, g lm.Glyph) bool { return false }
