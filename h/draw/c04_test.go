package draw

import (
	"fmt"
	"sort"
	"strings"
	"testing"

	"github.com/gdamore/tcell/v2"
	"pgregory.net/rapid"
	"verif.local/hx"
	"verif.local/simrt"
	"verif.local/vt"
)

// C04: Fini/Suspend restore every terminal mode and drive the Tty in
// contract order; Resume re-applies exactly the enabled modes.

type lop4 struct {
	Sub   []lop4 // suspend-resume: calls made while suspended
	Kind  string
	Flags int
	CS    int
	Col   int
	Title string
	X, Y  int
	Pause int
}

func (o lop4) String() string {
	return fmt.Sprintf("%s(%d,%d,%d,%q)", o.Kind, o.Flags, o.CS, o.X, o.Title)
}

type stim4 struct {
	Kind  string // input resize late pause
	Pause int
	W, H  int
}

var trackedModes = []int{1, 7, 47, 1047, 1049, 1000, 1002, 1003, 1006, 1004, 2004}

type modeSnap struct {
	modes  map[int]bool
	keypad bool
	alt    bool
	title  string
}

func snap(t *vt.Term) modeSnap {
	s := modeSnap{modes: map[int]bool{}, keypad: t.KeypadApp, alt: t.AltScreen, title: t.Title}
	for _, m := range trackedModes {
		s.modes[m] = t.Modes[m]
	}
	return s
}

func (a modeSnap) diff(b modeSnap) string {
	var d []string
	for _, m := range trackedModes {
		if a.modes[m] != b.modes[m] {
			d = append(d, fmt.Sprintf("DEC private mode %d: %v before Suspend, %v after Resume", m, a.modes[m], b.modes[m]))
		}
	}
	if a.keypad != b.keypad {
		d = append(d, fmt.Sprintf("keypad application mode: %v before, %v after", a.keypad, b.keypad))
	}
	if a.alt != b.alt {
		d = append(d, fmt.Sprintf("alternate screen: %v before, %v after", a.alt, b.alt))
	}
	sort.Strings(d)
	return strings.Join(d, "; ")
}

// restored checks the terminal after Fini/Suspend returned.
func (w *dw) restored(call string, pristine modeSnap, pushedTitle bool) {
	t := w.T
	bad := func(reg, format string, args ...interface{}) {
		if w.exempt[reg] {
			return
		}
		w.fail("C04/mode:"+reg, "after %s returned: "+format, append([]interface{}{call}, args...)...)
	}
	if len(t.Errors) > 0 {
		w.fail("C09/syntax", "terminal rejected the output: %s", strings.Join(t.Errors, "; "))
		return
	}
	if !t.InGround() {
		bad("syntax", "the output stream ends inside an unterminated control sequence")
	}
	if t.AltScreen {
		bad("altscreen", "the terminal is still on the alternate screen")
	}
	if !t.CursorVisible {
		bad("cursor", "the cursor is hidden")
	}
	if t.CursorStyle != 0 {
		bad("cursor-style", "the cursor shape is still DECSCUSR %d", t.CursorStyle)
	}
	if t.CursorColor != "" {
		bad("cursor-colour", "the cursor colour is still %q", t.CursorColor)
	}
	for _, m := range []int{1000, 1002, 1003, 1006} {
		if t.Modes[m] {
			bad("mouse", "mouse tracking mode %d is still on", m)
		}
	}
	if t.Modes[2004] {
		bad("paste", "bracketed paste is still on")
	}
	if t.Modes[1004] {
		bad("focus", "focus reporting is still on")
	}
	if t.KeypadApp {
		bad("keypad", "the keypad is still in application mode")
	}
	if t.Modes[1] {
		bad("keypad", "cursor keys are still in application mode (DECCKM)")
	}
	if !t.AutoWrap {
		bad("autowrap", "auto-margin is still off")
	}
	p := t.Pen
	acc, _ := w.expColor(tcell.ColorDefault)
	acc = append(acc, vt.Color{})
	if p.Attr != 0 || p.Ul != 0 || !colorIn(p.Fg, acc) || !colorIn(p.Bg, acc) {
		bad("sgr", "colours/attributes are not reset: fg %v bg %v attr %06b underline %d", p.Fg, p.Bg, p.Attr, p.Ul)
	}
	if p.Link != "" {
		bad("hyperlink", "a hyperlink (%q) is still open", p.Link)
	}
	if t.Shift != 0 || t.PCFont {
		bad("charset", "an alternate character set is still selected")
	}
	if len(t.TitleStack) != 0 {
		bad("title", "%d saved title(s) were never restored", len(t.TitleStack))
	} else if pushedTitle && t.Title != pristine.title {
		bad("title", "the title is %q, the saved title %q was not restored", t.Title, pristine.title)
	}
}

// contract checks the ordered Tty call log against the interface contract.
func (w *dw) contract(finished bool) {
	started, drained, notified := false, false, true
	closed := false
	var cbSet bool
	for _, c := range w.Tty.Log {
		lib := c.G != "app" && c.G != "app2"
		rule := func(r, format string, args ...interface{}) {
			w.fail("C04/tty-order:"+r, "tty call #%d %s by %s: "+format, append([]interface{}{c.At, c.Kind, c.G}, args...)...)
		}
		if closed && c.Kind != "Close" && lib {
			rule("after-close", "the tty is used after Close")
		}
		switch c.Kind {
		case "Start":
			if closed {
				rule("after-close", "Start after Close")
			}
			if started {
				rule("double-start", "Start while already started")
			}
			if !c.Err {
				started, drained = true, false
				notified = false
			}
		case "Drain":
			if !started {
				rule("drain", "Drain while not started")
			}
			drained = true
		case "NotifyResize":
			cbSet = true
		case "NotifyResize(nil)":
			cbSet = false
			notified = true
		case "Stop":
			if !started {
				rule("stop", "Stop while not started")
			}
			if !drained {
				rule("drain-before-stop", "Stop without a preceding Drain")
			}
			if cbSet {
				rule("notify-before-stop", "Stop while the resize callback is still registered")
			}
			started = false
		case "Close":
			if closed {
				rule("close-once", "Close called twice")
			}
			if started {
				rule("close-after-stop", "Close before Stop")
			}
			if !finished {
				rule("close-in-fini", "Close outside Fini")
			}
			closed = true
		case "Read", "Write", "WindowSize":
			if !started && lib {
				rule("io-after-stop", "library goroutine does I/O while the tty is stopped")
			}
			if !started && c.Kind == "Write" && c.G == "app" && w.inCall == "" && !w.allowAppIO {
				rule("io-after-stop", "write while the tty is stopped")
			}
		}
	}
	_ = notified
	if finished && !closed {
		w.fail("C04/tty-order:close-in-fini", "Fini returned without closing the tty")
	}
}

func runC04(t *rapid.T) {
	if hx.PastDeadline() {
		return
	}
	fam := ecmaFamily()
	cfg := hx.DrawConfig(t, fam, 10, 4)
	n := rapid.IntRange(0, 30).Draw(t, "nops")
	var ops []lop4
	for i := 0; i < n; i++ {
		k := rapid.SampledFrom([]string{"mouse", "mouse", "nomouse", "paste", "nopaste", "focus", "nofocus", "curstyle", "title", "cursor", "hidecursor", "draw", "show", "suspend-resume", "pause", "sync", "clipboard", "beep"}).Draw(t, "op")
		o := lop4{Kind: k}
		switch k {
		case "mouse":
			o.Flags = rapid.IntRange(0, 7).Draw(t, "flags")
		case "curstyle":
			o.CS = rapid.IntRange(0, 6).Draw(t, "cs")
			o.Col = rapid.IntRange(0, 3).Draw(t, "cscol")
		case "title":
			o.Title = rapid.SampledFrom([]string{"", "app", "My App 1.0", "über"}).Draw(t, "title")
		case "cursor":
			o.X, o.Y = rapid.IntRange(-1, 10).Draw(t, "cx"), rapid.IntRange(-1, 4).Draw(t, "cy")
		case "draw":
			o.X, o.Y = rapid.IntRange(0, 9).Draw(t, "x"), rapid.IntRange(0, 3).Draw(t, "y")
			o.Flags = rapid.IntRange(0, 5).Draw(t, "stylekind")
		case "pause":
			o.Pause = rapid.SampledFrom([]int{1, 20, 60}).Draw(t, "ms")
		case "suspend-resume":
			o.Flags = rapid.IntRange(0, 5).Draw(t, "startfail") // 0: Start fails once; 4: the size query fails during Resume
			ns := rapid.IntRange(0, 3).Draw(t, "nsub")
			for j := 0; j < ns; j++ {
				so := lop4{Kind: rapid.SampledFrom([]string{"mouse", "nomouse", "paste", "nopaste", "focus", "nofocus", "title", "curstyle", "cursor", "show", "sync", "beep", "clipboard", "draw"}).Draw(t, "subop")}
				so.Flags = rapid.IntRange(0, 7).Draw(t, "subflags")
				so.CS = rapid.IntRange(0, 6).Draw(t, "subcs")
				so.Title = "suspended-title"
				o.Sub = append(o.Sub, so)
			}
		}
		ops = append(ops, o)
	}
	ending := rapid.SampledFrom([]string{"fini", "fini", "suspend", "suspend-fini", "failedresume-fini"}).Draw(t, "ending")
	var finiSub []lop4 // calls made between the Suspend and the Fini of those endings
	for i, nf := 0, rapid.IntRange(0, 3).Draw(t, "nfinisub"); i < nf; i++ {
		so := lop4{Kind: rapid.SampledFrom([]string{"mouse", "paste", "focus", "title", "curstyle", "cursor", "show", "sync", "beep", "clipboard", "draw"}).Draw(t, "finisubop")}
		so.Flags = rapid.IntRange(0, 7).Draw(t, "finisubflags")
		so.CS = rapid.IntRange(0, 6).Draw(t, "finisubcs")
		so.Title = "suspended-title"
		finiSub = append(finiSub, so)
	}
	// a second application goroutine that changes modes while the final
	// Fini/Suspend is in progress
	var conc []lop4
	if rapid.IntRange(0, 2).Draw(t, "concurrent") == 0 {
		nc := rapid.IntRange(1, 3).Draw(t, "nconc")
		for i := 0; i < nc; i++ {
			co := lop4{Kind: rapid.SampledFrom([]string{"mouse", "paste", "focus", "curstyle", "title", "fini"}).Draw(t, "concop")}
			co.Flags = rapid.IntRange(1, 7).Draw(t, "concflags")
			co.CS = rapid.IntRange(1, 6).Draw(t, "conccs")
			co.Title = "concurrent-title"
			conc = append(conc, co)
		}
	}
	ns := rapid.IntRange(0, 8).Draw(t, "nstim")
	var stims []stim4
	for i := 0; i < ns; i++ {
		k := rapid.SampledFrom([]string{"input", "input", "resize", "late", "pause"}).Draw(t, "stim")
		stims = append(stims, stim4{Kind: k, Pause: rapid.SampledFrom([]int{0, 1, 30, 70}).Draw(t, "sp"), W: rapid.IntRange(1, 10).Draw(t, "sw"), H: rapid.IntRange(1, 4).Draw(t, "sh")})
	}
	readErr := rapid.IntRange(0, 9).Draw(t, "readerr") == 0
	drainErrs := rapid.SampledFrom([]int{0, 0, 0, 0, 1, 2, 9, -1, -1}).Draw(t, "drainerrs")
	ch := hx.DrawChooser(t, 120)
	hx.Arm("C04")
	defer hx.Disarm()
	w, err := newDW(cfg, ch, "C04")
	if err != nil {
		t.Fatalf("HARNESS: %v", err)
	}
	// a pristine terminal as the user's shell left it
	w.T = vt.New(cfg.W, cfg.H, nil)
	w.T.Title = "user-shell"
	pristine := snap(w.T)
	w.S.Note(hx.Fingerprint(cfg, ops, ending, stims, readErr, conc, drainErrs))
	if drainErrs < 0 {
		// a tty whose Drain wakes the reader once instead of failing every
		// later read
		w.Tty.DrainOnce = true
	} else {
		w.Tty.DrainErrs = drainErrs
	}
	if readErr {
		w.Tty.ReadErr = hx.ErrInjected
		w.Tty.ErrAfter = 3
	}
	s := w.S
	finished, suspended := false, false
	pushed := false
	// endingNow: the final Fini/Suspend is in progress; app2In: the second
	// goroutine is inside a screen call (which may then complete after the
	// final call has returned: its effect is the application's own doing)
	endingNow, endingDone, app2In, app2Late := false, false, false, false
	var app2Kinds []string
	var apply2 func(o lop4)
	s.Spawn("app", func() {
		sc := w.Scr
		if err := sc.Init(); err != nil {
			w.initErr = err
			w.inited = true
			return
		}
		w.inited = true
		for _, op := range w.T.WinOps {
			if op == "push-title" {
				pushed = true
			}
		}
		// learn, from the running screen itself, which modes this terminal
		// description lets the library drive (so the oracle does not repeat
		// the library's capability heuristics)
		var capPaste, capFocus bool
		capMouse := map[int]bool{}
		sc.EnablePaste()
		capPaste = w.T.Modes[2004]
		sc.DisablePaste()
		sc.EnableFocus()
		capFocus = w.T.Modes[1004]
		sc.DisableFocus()
		sc.EnableMouse()
		for _, m := range []int{1000, 1002, 1003, 1006} {
			capMouse[m] = w.T.Modes[m]
		}
		sc.DisableMouse()
		appMouse, appPaste, appFocus := 0, false, false
		// apply performs one mode/drawing call and tracks what the application asked for
		var apply func(o lop4)
		wantModes := func() map[int]bool {
			return map[int]bool{
				2004: capPaste && appPaste, 1004: capFocus && appFocus,
				1000: capMouse[1000] && appMouse&1 != 0, 1002: capMouse[1002] && appMouse&2 != 0,
				1003: capMouse[1003] && appMouse&4 != 0, 1006: capMouse[1006] && appMouse != 0,
			}
		}
		doSuspend := func(label string) bool {
			before := snap(w.T)
			w.inCall = "suspend"
			_ = sc.Suspend()
			w.inCall = ""
			w.restored("Suspend ("+label+")", pristine, pushed)
			w.contract(false)
			if w.Fail != nil {
				return false
			}
			_ = before
			return true
		}
		apply = func(o lop4) {
			switch o.Kind {
			case "show":
				sc.Show()
			case "sync":
				sc.Sync()
			case "beep":
				_ = sc.Beep()
			case "clipboard":
				sc.SetClipboard([]byte("clip"))
			case "draw":
				sc.SetContent(o.Flags%5, 0, 'S', nil, tcell.StyleDefault.Foreground(tcell.ColorRed).Bold(true))
			case "mouse":
				var fl []tcell.MouseFlags
				for _, f := range []tcell.MouseFlags{tcell.MouseButtonEvents, tcell.MouseDragEvents, tcell.MouseMotionEvents} {
					if o.Flags&int(f) != 0 {
						fl = append(fl, f)
					}
				}
				sc.EnableMouse(fl...)
				appMouse = o.Flags & 7
				if len(fl) == 0 {
					appMouse = 7
				}
			case "nomouse":
				sc.DisableMouse()
				appMouse = 0
			case "paste":
				sc.EnablePaste()
				appPaste = true
			case "nopaste":
				sc.DisablePaste()
				appPaste = false
			case "focus":
				sc.EnableFocus()
				appFocus = true
			case "nofocus":
				sc.DisableFocus()
				appFocus = false
			case "curstyle":
				switch o.Col {
				case 0:
					sc.SetCursorStyle(tcell.CursorStyle(o.CS))
				case 1:
					sc.SetCursorStyle(tcell.CursorStyle(o.CS), tcell.NewRGBColor(200, 10, 99))
				case 2:
					sc.SetCursorStyle(tcell.CursorStyle(o.CS), tcell.ColorReset)
				default:
					sc.SetCursorStyle(tcell.CursorStyle(o.CS), tcell.ColorRed)
				}
			case "title":
				sc.SetTitle(o.Title)
			case "cursor":
				sc.ShowCursor(o.X, o.Y)
			case "hidecursor":
				sc.HideCursor()
			}
		}
		for _, o := range ops {
			if w.Fail != nil {
				return
			}
			switch o.Kind {
			case "mouse", "nomouse", "paste", "nopaste", "focus", "nofocus", "curstyle", "title", "cursor", "hidecursor":
				apply(o)
			case "draw":
				st := tcell.StyleDefault
				switch o.Flags {
				case 1:
					st = st.Foreground(tcell.ColorRed).Bold(true)
				case 2:
					st = st.Background(tcell.NewRGBColor(1, 2, 3)).Underline(tcell.UnderlineStyleCurly, tcell.ColorGreen)
				case 3:
					st = st.Url("http://x.example/").Reverse(true)
				case 4:
					st = st.Blink(true).Dim(true).Italic(true).StrikeThrough(true)
				}
				sc.SetContent(o.X, o.Y, rune('A'+o.X), nil, st)
			case "show":
				sc.Show()
			case "sync":
				sc.Sync()
			case "clipboard":
				sc.SetClipboard([]byte("clip"))
			case "beep":
				_ = sc.Beep()
			case "pause":
				simrt.Sleep("app.pause", hx.Ms(o.Pause))
			case "suspend-resume":
				before := snap(w.T)
				if !doSuspend("mid-history") {
					return
				}
				if o.Flags == 0 {
					// Start fails once: the screen must stay suspended and usable
					w.Tty.StartFailAt = w.Tty.Starts + 1
					if err := sc.Resume(); err == nil {
						w.fail("C04/resume:start-fail", "Resume returned nil although the tty failed to start")
						return
					}
					n := len(w.Tty.Log)
					simrt.Sleep("after-failed-resume", hx.Ms(5))
					for _, c := range w.Tty.Log[n:] {
						if c.Kind == "Read" || c.Kind == "Write" {
							w.fail("C04/tty-order:io-after-stop", "after a failed Resume the library still does tty %s (by %s)", c.Kind, c.G)
							return
						}
					}
				}
				// mode changes made while suspended take effect at Resume
				nlog := len(w.Tty.Log)
				w.allowAppIO = true // "no I/O after Stop unless the application calls the screen again"
				for _, so := range o.Sub {
					apply(so)
				}
				w.inCall = "resume"
				if o.Flags == 4 {
					// the window size cannot be queried right now: Resume
					// carries on with the size it knows
					w.Tty.WinSizeFail = true
				}
				err := sc.Resume()
				w.Tty.WinSizeFail = false
				w.inCall = ""
				if err != nil {
					w.fail("C04/resume:error", "Resume failed: %v", err)
					return
				}
				_ = nlog
				after := snap(w.T)
				for m, want := range wantModes() {
					before.modes[m] = want // what the application has enabled now
				}
				if d := before.diff(after); d != "" {
					var subs []string
					for _, so := range o.Sub {
						subs = append(subs, so.Kind)
					}
					w.fail("C04/resume:modes", "after Resume the modes are not those the application has enabled (calls while suspended: %v): %s", subs, d)
					return
				}
			}
		}
		apply2 = apply
		if ending == "suspend-fini" || ending == "failedresume-fini" {
			// Fini finds the screen suspended (or suspended after a Resume
			// whose tty start failed): it still closes the tty, once
			if !doSuspend("before the final Fini") {
				return
			}
			// whatever the application calls while suspended, Fini leaves the
			// terminal as the shell had it
			w.allowAppIO = true
			for _, so := range finiSub {
				apply(so)
			}
			if ending == "failedresume-fini" {
				w.Tty.StartFailAt = w.Tty.Starts + 1
				if err := sc.Resume(); err == nil {
					w.fail("C04/resume:start-fail", "Resume returned nil although the tty failed to start")
					return
				}
			}
			ending = "fini"
		}
		// lateCall: a concurrent call linearizes before or after the final
		// call.  What decides is the tty: bytes the second goroutine wrote
		// before Stop belong to the running screen and must have been
		// undone; bytes it wrote after Stop (on the stopped tty, like any
		// call made while suspended) are the application's own doing.  A
		// call still in progress when the final call returned is awaited
		// first.  Fini closes the tty: no call made after it can reach the
		// terminal, so nothing is exempt there.
		lateCall := func() {
			if app2In {
				app2Late, w.allowAppIO = true, true
				simrt.Wait("late-call", func() bool { return !app2In })
			}
			w.exempt = map[string]bool{}
			stopAt := -1
			for i, c := range w.Tty.Log {
				if c.Kind == "Stop" {
					stopAt = i
				}
			}
			for i, c := range w.Tty.Log {
				if ending != "fini" && i > stopAt && stopAt >= 0 && c.Kind == "Write" && c.G == "app2" && !c.Err {
					w.allowAppIO = true
					for _, k := range app2Kinds {
						for _, r := range map[string][]string{"mouse": {"mouse"}, "paste": {"paste"}, "focus": {"focus"},
							"curstyle": {"cursor-style", "cursor-colour"}, "title": {"title"}}[k] {
							w.exempt[r] = true
						}
					}
				}
			}
		}
		endingNow = true
		if ending == "fini" {
			w.inCall = "fini"
			sc.Fini()
			w.inCall = ""
			endingNow, endingDone = false, true
			finished = true
			lateCall()
			w.restored("Fini", pristine, pushed)
			w.contract(true)
		} else {
			w.inCall = "suspend"
			_ = sc.Suspend()
			w.inCall = ""
			endingNow, endingDone = false, true
			lateCall()
			w.restored("Suspend (final)", pristine, pushed)
			w.contract(false)
			suspended = w.Fail == nil
		}
	})
	s.Spawn("app2", func() {
		if len(conc) == 0 {
			return
		}
		simrt.Wait("wait-ending", func() bool { return endingNow || endingDone || (w.inited && w.initErr != nil) || s.Find("app").Done() })
		for _, co := range conc {
			if !endingNow {
				return // the call has returned: a later mode change is a sequential call on a stopped screen
			}
			if co.Kind == "fini" {
				if ending != "fini" {
					continue
				}
				// a second, overlapping Fini: when it returns the screen is
				// finalized too (it waits for the first)
				sc2 := w.Scr
				sc2.Fini()
				w.Tty.Faults.Inc("overlapping_fini")
				if !w.Tty.Closed || w.Tty.Started {
					w.fail("C04/tty-order:close-in-fini", "a second Fini, overlapping the first, returned before the tty was stopped and closed (started=%v closed=%v)", w.Tty.Started, w.Tty.Closed)
				}
				w.restored("the second of two overlapping Fini calls", pristine, pushed)
				continue
			}
			app2In = true
			app2Kinds = append(app2Kinds, co.Kind)
			apply2(co)
			app2In = false
			w.Tty.Faults.Inc("concurrent_mode_call")
			simrt.Yield("app2")
		}
	})
	s.Spawn("poller", func() {
		simrt.Wait("wait-init", func() bool { return w.inited })
		if w.initErr != nil {
			return
		}
		for w.Scr.PollEvent() != nil {
		}
	})
	s.Spawn("term", func() {
		simrt.Wait("wait-init", func() bool { return w.inited })
		for _, st := range stims {
			simrt.Sleep("term.pause", hx.Ms(st.Pause))
			switch st.Kind {
			case "input":
				w.Tty.Feed([]byte("ab\x1b[Ac"))
			case "resize":
				w.Tty.Resize(st.W, st.H)
				w.T.Resize(st.W, st.H)
				w.Tty.Faults.Inc("resize")
				w.Tty.FireResize()
			case "late":
				w.Tty.FireLateResize()
			}
		}
	})
	st := s.Run()
	if w.initErr != nil {
		t.Fatalf("HARNESS: Init: %v", w.initErr)
	}
	app := s.Find("app")
	if st != simrt.Budget && !app.Done() && app.Panic == nil {
		w.fail("C06/deadlock/"+w.inCall, "stuck in %s: %v", w.inCall, s.Blocked())
	}
	if w.Fail == nil && app.Done() && (finished || suspended) {
		// nothing may touch the tty once the call has returned and the system has settled
		w.contract(finished)
	}
	for _, pn := range w.Panics() {
		w.fail("C04/panic", "panic: %s", pn)
	}
	if app2Late {
		hx.St.Probe("concurrent_mode_call_outlived_the_final_call", 1)
	}
	hx.St.Record(s, w.Tty.Faults.Map(), func() interface{} {
		var os []string
		for _, o := range ops {
			os = append(os, o.Kind)
		}
		return map[string]interface{}{"config": cfg.String(), "ops": strings.Join(os, ","), "ending": ending, "tty_calls": len(w.Tty.Log)}
	})
	fail := w.Fail
	tr, sig := s.Trace, s.Hash()
	if err := w.Close(); err != nil {
		t.Fatalf("HARNESS: %v", err)
	}
	if fail != nil && strings.HasPrefix(fail.Tag, "C04/") {
		var os []string
		for _, o := range ops {
			os = append(os, o.String())
		}
		hx.WriteTrace("C04", fail, map[string]interface{}{"config": cfg.String(), "ops": os, "ending": ending, "stimuli": fmt.Sprintf("%+v", stims)}, tr, nil, sig)
		t.Fatalf("VIOLATION %s: [%s alt=%v] %s", fail.Tag, cfg.Term, cfg.AltScreen, fail.Msg)
	} else if fail != nil {
		hx.St.Probe("other_property_failure:"+fail.Tag, 1)
	}
}

func TestC04(t *testing.T) { rapid.Check(t, runC04) }
