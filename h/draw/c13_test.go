package draw

import (
	"fmt"
	"strings"

	"github.com/gdamore/tcell/v2"
	"pgregory.net/rapid"
	"verif.local/hx"
	"verif.local/simrt"
)

// runC13locker is the schedule dimension of C13: a second goroutine locks
// regions while the application goroutine draws and Shows.  Once
// LockRegion(..., true) has returned, no write that reaches the terminal
// may print into those cells - whichever way the two goroutines interleave
// (in particular when the lock request arrives while a Show has rendered its
// frame but not yet written it).
func runC13locker(t *rapid.T) {
	if hx.PastDeadline() {
		return
	}
	cfg := hx.DrawConfig(t, ecmaFamily(), 8, 3)
	cfg.W, cfg.H = rapid.IntRange(2, 8).Draw(t, "w"), rapid.IntRange(1, 3).Draw(t, "h")
	type lk struct{ X, Y, W, Pause int }
	nl := rapid.IntRange(1, 4).Draw(t, "nlocks")
	var locks []lk
	for i := 0; i < nl; i++ {
		locks = append(locks, lk{rapid.IntRange(0, cfg.W-1).Draw(t, "lx"), rapid.IntRange(0, cfg.H-1).Draw(t, "ly"), rapid.IntRange(1, 3).Draw(t, "lw"), rapid.IntRange(0, 2).Draw(t, "lpause")})
	}
	nd := rapid.IntRange(2, 12).Draw(t, "ndraw")
	type dr struct {
		X, Y int
		R    rune
	}
	var draws [][]dr
	for i := 0; i < nd; i++ {
		var frame []dr
		k := rapid.IntRange(1, 6).Draw(t, "ncells")
		for j := 0; j < k; j++ {
			frame = append(frame, dr{rapid.IntRange(0, cfg.W-1).Draw(t, "x"), rapid.IntRange(0, cfg.H-1).Draw(t, "y"), rune(rapid.IntRange('a', 'z').Draw(t, "r"))})
		}
		draws = append(draws, frame)
	}
	ch := hx.DrawChooser(t, 160)
	hx.Arm("C13")
	defer hx.Disarm()
	w, err := newDW(cfg, ch, "C13")
	if err != nil {
		t.Fatalf("HARNESS: %v", err)
	}
	w.S.Note(hx.Fingerprint(cfg, locks, draws))
	locked := make([]bool, cfg.W*cfg.H) // LockRegion(true) has returned for this cell
	writeID := 1000
	w.Tty.OnWrite = func(g string, b []byte) {
		writeID++
		w.T.Block = writeID
		w.T.Write(b)
		for i, l := range locked {
			if !l {
				continue
			}
			x, y := i%cfg.W, i/cfg.W
			if x < w.T.W && y < w.T.H {
				if c := w.T.At(x, y); c.Stamp == writeID && c.Width != 0 {
					w.fail("C13/locked-write", "a write by %s printed %q into cell (%d,%d) after LockRegion had returned for it", g, c.Text(), x, y)
				}
			}
		}
	}
	s := w.S
	ready := false
	s.Spawn("app", func() {
		if err := w.Scr.Init(); err != nil {
			w.initErr = err
			ready = true
			return
		}
		ready = true
		for _, frame := range draws {
			for _, d := range frame {
				w.Scr.SetContent(d.X, d.Y, d.R, nil, tcell.StyleDefault)
			}
			w.Scr.Show()
		}
	})
	s.Spawn("locker", func() {
		simrt.Wait("ready", func() bool { return ready })
		if w.initErr != nil {
			return
		}
		for _, l := range locks {
			for i := 0; i < l.Pause; i++ {
				simrt.Yield("locker.pause")
			}
			w.Scr.LockRegion(l.X, l.Y, l.W, 1, true)
			for x := l.X; x < l.X+l.W && x < cfg.W; x++ {
				locked[l.Y*cfg.W+x] = true
			}
		}
	})
	s.Spawn("poller", func() {
		simrt.Wait("ready", func() bool { return ready })
		for w.initErr == nil && w.Scr.PollEvent() != nil {
		}
	})
	s.Run()
	if w.initErr != nil {
		t.Fatalf("HARNESS: %v", w.initErr)
	}
	for _, pn := range w.Panics() {
		w.fail("C13/panic", "panic: %s", pn)
	}
	hx.St.Record(s, map[string]int{"concurrent_lock": len(locks)}, func() interface{} {
		return map[string]interface{}{"config": cfg.String(), "locks": fmt.Sprintf("%v", locks), "frames": len(draws), "preemptions": s.Preempts}
	})
	fail := w.Fail
	tr, sig := s.Trace, s.Hash()
	if err := w.Close(); err != nil {
		t.Fatalf("HARNESS: %v", err)
	}
	if fail != nil && strings.HasPrefix(fail.Tag, "C13/") {
		hx.WriteTrace("C13", fail, map[string]interface{}{"config": cfg.String(), "locks": fmt.Sprintf("%v", locks), "draws": fmt.Sprintf("%v", draws)}, tr, nil, sig)
		t.Fatalf("VIOLATION %s: [%s] %s", fail.Tag, cfg.Term, fail.Msg)
	}
}

// runC13suspender is another schedule dimension of C13: one goroutine keeps
// changing single cells and calling Show() while another suspends the
// screen.  As long as the screen still owns the terminal (until Tty.Stop),
// a Show writes only the cells that changed - Suspend must not throw the
// logical screen away while other goroutines can still draw it.
func runC13suspender(t *rapid.T) {
	if hx.PastDeadline() {
		return
	}
	cfg := hx.DrawConfig(t, ecmaFamily(), 8, 3)
	cfg.W, cfg.H = rapid.IntRange(2, 8).Draw(t, "w"), rapid.IntRange(1, 3).Draw(t, "h")
	type dr struct {
		X, Y int
		R    rune
	}
	var frames []dr
	for i, n := 0, rapid.IntRange(1, 6).Draw(t, "nframes"); i < n; i++ {
		frames = append(frames, dr{rapid.IntRange(0, cfg.W-1).Draw(t, "x"), rapid.IntRange(0, cfg.H-1).Draw(t, "y"), rune(rapid.IntRange('a', 'z').Draw(t, "r"))})
	}
	pause := rapid.IntRange(0, 6).Draw(t, "suspendafter")
	ch := hx.DrawChooser(t, 160)
	hx.Arm("C13")
	defer hx.Disarm()
	w, err := newDW(cfg, ch, "C13")
	if err != nil {
		t.Fatalf("HARNESS: %v", err)
	}
	w.S.Note(hx.Fingerprint(cfg, frames, pause))
	writeID := 1000
	cur := -1 // index of the frame whose Show is in progress
	changed := map[int]bool{}
	w.Tty.OnWrite = func(g string, b []byte) {
		writeID++
		w.T.Block = writeID
		w.T.Write(b)
		if g != "painter" || cur < 0 || !w.Tty.Started {
			return
		}
		for i := 0; i < cfg.W*cfg.H && i < w.T.W*w.T.H; i++ {
			x, y := i%cfg.W, i/cfg.W
			if x >= w.T.W || y >= w.T.H {
				continue
			}
			if y == cfg.H-1 && x == cfg.W-2 && changed[cfg.W*cfg.H-1] {
				continue // the neighbour used to paint the bottom-right corner
			}
			if c := w.T.At(x, y); c.Stamp == writeID && c.Width != 0 && !changed[i] {
				w.fail("C13/extra-write", "Show #%d, made while another goroutine was suspending the screen (the tty not yet stopped), printed %q into cell (%d,%d), which had not changed", cur, c.Text(), x, y)
			}
		}
	}
	s := w.S
	ready := false
	s.Spawn("app", func() {
		if err := w.Scr.Init(); err != nil {
			w.initErr = err
			ready = true
			return
		}
		// a baseline: every cell holds something and has been shown
		for i := 0; i < cfg.W*cfg.H; i++ {
			w.Scr.SetContent(i%cfg.W, i/cfg.W, '.', nil, tcell.StyleDefault)
		}
		w.Scr.Show()
		ready = true
		simrt.Go("painter", func() {
			for i, f := range frames {
				w.Scr.SetContent(f.X, f.Y, f.R, nil, tcell.StyleDefault)
				changed[f.Y*cfg.W+f.X] = true
				cur = i
				w.Scr.Show()
				cur = -1
				if w.Tty.Started {
					// that Show reached the terminal: the cell is clean again
					// (a Show whose frame went to the stopped tty proves nothing)
					delete(changed, f.Y*cfg.W+f.X)
				}
			}
		})
		for i := 0; i < pause; i++ {
			simrt.Yield("suspender.wait")
		}
		_ = w.Scr.Suspend()
		w.Tty.Faults.Inc("suspend_during_show")
	})
	s.Spawn("poller", func() {
		simrt.Wait("ready", func() bool { return ready })
		for w.initErr == nil && w.Scr.PollEvent() != nil {
		}
	})
	s.Run()
	if w.initErr != nil {
		t.Fatalf("HARNESS: %v", w.initErr)
	}
	for _, pn := range w.Panics() {
		w.fail("C13/panic", "panic: %s", pn)
	}
	hx.St.Record(s, w.Tty.Faults.Map(), func() interface{} {
		return map[string]interface{}{"config": cfg.String(), "frames": len(frames), "preemptions": s.Preempts}
	})
	fail := w.Fail
	tr, sig := s.Trace, s.Hash()
	if err := w.Close(); err != nil {
		t.Fatalf("HARNESS: %v", err)
	}
	if fail != nil && strings.HasPrefix(fail.Tag, "C13/") {
		hx.WriteTrace("C13", fail, map[string]interface{}{"config": cfg.String(), "frames": fmt.Sprintf("%v", frames), "suspend_after": pause}, tr, nil, sig)
		t.Fatalf("VIOLATION %s: [%s] %s", fail.Tag, cfg.Term, fail.Msg)
	}
}
