package draw

import (
	"fmt"
	"strings"

	"github.com/gdamore/tcell/v2"
	"pgregory.net/rapid"
	"verif.local/hx"
	"verif.local/simrt"
)

// runC13locker is the schedule dimension of C13: a second goroutine locks
// regions while the application goroutine draws and Shows.  Once
// LockRegion(..., true) has returned, no write that reaches the terminal
// may print into those cells - whichever way the two goroutines interleave
// (in particular when the lock request arrives while a Show has rendered its
// frame but not yet written it).
func runC13locker(t *rapid.T) {
	if hx.PastDeadline() {
		return
	}
	cfg := hx.DrawConfig(t, ecmaFamily(), 8, 3)
	cfg.W, cfg.H = rapid.IntRange(2, 8).Draw(t, "w"), rapid.IntRange(1, 3).Draw(t, "h")
	type lk struct{ X, Y, W, Pause int }
	nl := rapid.IntRange(1, 4).Draw(t, "nlocks")
	var locks []lk
	for i := 0; i < nl; i++ {
		locks = append(locks, lk{rapid.IntRange(0, cfg.W-1).Draw(t, "lx"), rapid.IntRange(0, cfg.H-1).Draw(t, "ly"), rapid.IntRange(1, 3).Draw(t, "lw"), rapid.IntRange(0, 2).Draw(t, "lpause")})
	}
	nd := rapid.IntRange(2, 12).Draw(t, "ndraw")
	type dr struct {
		X, Y int
		R    rune
	}
	var draws [][]dr
	for i := 0; i < nd; i++ {
		var frame []dr
		k := rapid.IntRange(1, 6).Draw(t, "ncells")
		for j := 0; j < k; j++ {
			frame = append(frame, dr{rapid.IntRange(0, cfg.W-1).Draw(t, "x"), rapid.IntRange(0, cfg.H-1).Draw(t, "y"), rune(rapid.IntRange('a', 'z').Draw(t, "r"))})
		}
		draws = append(draws, frame)
	}
	ch := hx.DrawChooser(t, 160)
	hx.Arm("C13")
	defer hx.Disarm()
	w, err := newDW(cfg, ch, "C13")
	if err != nil {
		t.Fatalf("HARNESS: %v", err)
	}
	w.S.Note(hx.Fingerprint(cfg, locks, draws))
	locked := make([]bool, cfg.W*cfg.H) // LockRegion(true) has returned for this cell
	writeID := 1000
	w.Tty.OnWrite = func(g string, b []byte) {
		writeID++
		w.T.Block = writeID
		w.T.Write(b)
		for i, l := range locked {
			if !l {
				continue
			}
			x, y := i%cfg.W, i/cfg.W
			if x < w.T.W && y < w.T.H {
				if c := w.T.At(x, y); c.Stamp == writeID && c.Width != 0 {
					w.fail("C13/locked-write", "a write by %s printed %q into cell (%d,%d) after LockRegion had returned for it", g, c.Text(), x, y)
				}
			}
		}
	}
	s := w.S
	ready := false
	s.Spawn("app", func() {
		if err := w.Scr.Init(); err != nil {
			w.initErr = err
			ready = true
			return
		}
		ready = true
		for _, frame := range draws {
			for _, d := range frame {
				w.Scr.SetContent(d.X, d.Y, d.R, nil, tcell.StyleDefault)
			}
			w.Scr.Show()
		}
	})
	s.Spawn("locker", func() {
		simrt.Wait("ready", func() bool { return ready })
		if w.initErr != nil {
			return
		}
		for _, l := range locks {
			for i := 0; i < l.Pause; i++ {
				simrt.Yield("locker.pause")
			}
			w.Scr.LockRegion(l.X, l.Y, l.W, 1, true)
			for x := l.X; x < l.X+l.W && x < cfg.W; x++ {
				locked[l.Y*cfg.W+x] = true
			}
		}
	})
	s.Spawn("poller", func() {
		simrt.Wait("ready", func() bool { return ready })
		for w.initErr == nil && w.Scr.PollEvent() != nil {
		}
	})
	s.Run()
	if w.initErr != nil {
		t.Fatalf("HARNESS: %v", w.initErr)
	}
	for _, pn := range w.Panics() {
		w.fail("C13/panic", "panic: %s", pn)
	}
	hx.St.Record(s, map[string]int{"concurrent_lock": len(locks)}, func() interface{} {
		return map[string]interface{}{"config": cfg.String(), "locks": fmt.Sprintf("%v", locks), "frames": len(draws), "preemptions": s.Preempts}
	})
	fail := w.Fail
	tr, sig := s.Trace, s.Hash()
	if err := w.Close(); err != nil {
		t.Fatalf("HARNESS: %v", err)
	}
	if fail != nil && strings.HasPrefix(fail.Tag, "C13/") {
		hx.WriteTrace("C13", fail, map[string]interface{}{"config": cfg.String(), "locks": fmt.Sprintf("%v", locks), "draws": fmt.Sprintf("%v", draws)}, tr, nil, sig)
		t.Fatalf("VIOLATION %s: [%s] %s", fail.Tag, cfg.Term, fail.Msg)
	}
}
