// Package draw is the deterministic-simulation harness for the output side
// of the terminfo screen: C01 (display equals logical screen), C09 (output
// well-formed, no control-byte injection), C13 (only changed cells are
// redrawn) and C17 (legacy charsets and fallbacks).  The real tScreen writes
// to a fake Tty whose bytes are interpreted by the reference terminal (vt),
// a simulated peer whose state evolves over the whole I/O history; window
// resizes, external corruption and WindowSize failures are injected while
// the library's own input and resize goroutines run under the scheduler.
package draw

import (
	"bytes"
	"fmt"
	"golang.org/x/text/encoding/charmap"
	"golang.org/x/text/encoding/japanese"
	"golang.org/x/text/encoding/korean"
	"golang.org/x/text/encoding/simplifiedchinese"
	"golang.org/x/text/encoding/traditionalchinese"
	"os"
	"sort"
	"strings"
	"testing"

	"github.com/gdamore/tcell/v2"
	tenc "github.com/gdamore/tcell/v2/encoding"
	"github.com/gdamore/tcell/v2/terminfo"
	"golang.org/x/text/encoding"
	"pgregory.net/rapid"
	"verif.local/hx"
	"verif.local/lm"
	"verif.local/simrt"
	"verif.local/vt"
)

func TestMain(m *testing.M) {
	tenc.Register()
	code := m.Run()
	hx.St.Flush()
	os.Exit(code)
}

// ---------------------------------------------------------------- family --

// ecmaFamily computes, from the database alone, which entries address the
// cursor with ANSI CUP and clear with CSI sequences.
func stripPad(s string) string {
	for {
		i := strings.Index(s, "$<")
		if i < 0 {
			return s
		}
		j := strings.Index(s[i:], ">")
		if j < 0 {
			return s
		}
		s = s[:i] + s[i+j+1:]
	}
}

var familyCache []string

func ecmaFamily() []string {
	if familyCache != nil {
		return familyCache
	}
	for _, n := range hx.TermNames() {
		ti := hx.Term(n, false)
		cup := stripPad(ti.SetCursor)
		if cup != "\x1b[%i%p1%d;%p2%dH" {
			continue
		}
		clr := stripPad(ti.Clear)
		ok := clr != ""
		for _, part := range strings.Split(clr, "\x1b[")[1:] {
			if part == "" {
				ok = false
			}
		}
		if !strings.HasPrefix(clr, "\x1b[") {
			ok = false
		}
		if ok {
			familyCache = append(familyCache, n)
		}
	}
	return familyCache
}

// ------------------------------------------------------------------ plan --

type op struct {
	Kind  string
	X, Y  int
	W, H  int
	R     rune
	Comb  []rune
	St    lm.Style
	Lock  bool
	CS    tcell.CursorStyle
	Col   tcell.Color
	Seed  int
	Quiet bool
	Late  bool // set: the caller's combining slice is reused only after the next Show
}

func (o op) String() string {
	switch o.Kind {
	case "set":
		return fmt.Sprintf("SetContent(%d,%d,%q,%q,%+v)", o.X, o.Y, o.R, string(o.Comb), o.St)
	case "fill":
		return fmt.Sprintf("Fill(%q,%+v)", o.R, o.St)
	case "setstyle":
		return fmt.Sprintf("SetStyle(%+v)", o.St)
	case "cursor":
		return fmt.Sprintf("ShowCursor(%d,%d)", o.X, o.Y)
	case "curstyle":
		return fmt.Sprintf("SetCursorStyle(%d,%v)", o.CS, o.Col)
	case "lock":
		return fmt.Sprintf("LockRegion(%d,%d,%d,%d,%v)", o.X, o.Y, o.W, o.H, o.Lock)
	case "resize":
		return fmt.Sprintf("resize(%dx%d quiet=%v)", o.W, o.H, o.Quiet)
	case "winsizefail":
		return fmt.Sprintf("WindowSize fails=%v", o.Lock)
	case "queuefull":
		return fmt.Sprintf("application stops polling with a full event queue=%v", o.Lock)
	case "writefault":
		return fmt.Sprintf("next tty write fails after %d bytes", o.Seed)
	case "reset-same":
		return fmt.Sprintf("SetContent(%d,%d, what it holds)", o.X, o.Y)
	case "restyle-ul":
		return fmt.Sprintf("SetContent(%d,%d, what it holds but underline %d colour %v)", o.X, o.Y, o.CS, o.Col)
	case "dollar-run":
		return fmt.Sprintf("text \"$<%d>/\" at (%d,%d)", o.Seed, o.X, o.Y)
	case "suspend-resume":
		return fmt.Sprintf("Suspend; window %dx%d (0 = unchanged, back=%v); Resume; Clear", o.W, o.H, o.Quiet)
	}
	return o.Kind
}

type plan struct {
	Cfg hx.Config
	Ops []op
}

var combMarks = []rune{0x0301, 0x0308, 0x0323, 0x20d7, 0x0338}

func drawColor(t *rapid.T, label string) tcell.Color {
	switch rapid.IntRange(0, 11).Draw(t, label) {
	case 10:
		// a valid palette index that no table gives an RGB value for
		return tcell.PaletteColor(rapid.IntRange(379, 2000).Draw(t, label+"big"))
	case 11:
		// an RGB colour written as opaque ARGB (bits above the 24 set)
		return tcell.NewHexColor(int32(-0x1000000 | rapid.IntRange(0, 0xffffff).Draw(t, label+"argb")))
	case 0, 1:
		return tcell.ColorDefault
	case 2:
		return tcell.ColorNone
	case 3:
		return tcell.ColorReset
	case 4, 5:
		return tcell.PaletteColor(rapid.IntRange(0, 15).Draw(t, label+"16"))
	case 6:
		return tcell.PaletteColor(rapid.IntRange(16, 255).Draw(t, label+"256"))
	case 7:
		return tcell.ColorValid + tcell.Color(rapid.IntRange(256, 378).Draw(t, label+"named"))
	default:
		return tcell.NewRGBColor(int32(rapid.IntRange(0, 255).Draw(t, label+"r")), int32(rapid.IntRange(0, 255).Draw(t, label+"g")), int32(rapid.IntRange(0, 255).Draw(t, label+"b")))
	}
}

func drawStyle(t *rapid.T) lm.Style {
	if rapid.IntRange(0, 4).Draw(t, "zerostyle") == 0 {
		return lm.Style{}
	}
	s := lm.Style{Fg: drawColor(t, "fg"), Bg: drawColor(t, "bg")}
	if rapid.Bool().Draw(t, "hasattr") {
		s.Attrs = tcell.AttrMask(rapid.IntRange(0, 127).Draw(t, "attrs")) &^ tcell.AttrUnderline
	}
	if rapid.IntRange(0, 3).Draw(t, "hasul") == 0 {
		s.Ul = tcell.UnderlineStyle(rapid.IntRange(1, 5).Draw(t, "ul"))
		s.Attrs |= tcell.AttrUnderline
		if rapid.Bool().Draw(t, "hasulc") {
			switch rapid.IntRange(0, 2).Draw(t, "ulckind") {
			case 0:
				s.UlC = tcell.PaletteColor(rapid.IntRange(0, 255).Draw(t, "ulcp"))
			case 1:
				s.UlC = tcell.NewRGBColor(int32(rapid.IntRange(0, 255).Draw(t, "ur")), int32(rapid.IntRange(0, 255).Draw(t, "ug")), 7)
			default:
				s.UlC = tcell.ColorReset
				if rapid.Bool().Draw(t, "ulcbig") {
					s.UlC = tcell.PaletteColor(rapid.IntRange(256, 2000).Draw(t, "ulcbigidx"))
				}
			}
		}
	}
	if rapid.IntRange(0, 5).Draw(t, "hasurl") == 0 {
		s.URL = rapid.SampledFrom([]string{"http://a.example/", "https://b.example/x?y=1", "file:///tmp/z"}).Draw(t, "url")
		if rapid.Bool().Draw(t, "hasurlid") {
			s.URLID = rapid.SampledFrom([]string{"one", "two"}).Draw(t, "urlid")
		}
	}
	return s
}

func drawRune(t *rapid.T) rune {
	switch rapid.IntRange(0, 13).Draw(t, "runeclass") {
	case 0, 1, 2, 3:
		// ('$' is never drawn, so that "$<" on the wire can only be a padding
		// specification that was not expanded)
		if r := rune(rapid.IntRange(0x20, 0x7e).Draw(t, "ascii")); r != '$' {
			return r
		}
		return '#'
	case 4:
		return rune(rapid.IntRange(0xa1, 0x17f).Draw(t, "latin"))
	case 5, 6:
		return rune(rapid.IntRange(0x4e00, 0x4e40).Draw(t, "cjk"))
	case 7:
		return rune(rapid.IntRange(0x1f600, 0x1f610).Draw(t, "emoji"))
	case 8:
		return rune(rapid.IntRange(0, 0x1f).Draw(t, "c0"))
	case 9:
		return rune(rapid.IntRange(0x7f, 0x9f).Draw(t, "c1"))
	case 10:
		return rapid.SampledFrom([]rune{0x200b, 0x200d, 0xfeff, 0x202e, 0x200e, 0x0301, 0xad}).Draw(t, "zw")
	case 11:
		return rapid.SampledFrom([]rune{0xd800, 0xdfff, 0x110000, 0x7fffffff, -1, -0x80000000, 0xfffe, 0xffff}).Draw(t, "invalid")
	case 12:
		return rapid.SampledFrom([]rune{0x2500, 0x2502, 0x250c, 0x2592, 0x25c6, 0xb0, 0xb1, 0x2264, 0x3c0, 0xa3, 0xb7, 0x2190, 0x2588}).Draw(t, "acs")
	default:
		return rune(rapid.IntRange(0x391, 0x3c9).Draw(t, "greek"))
	}
}

func drawOps(t *rapid.T, maxW, maxH int, withResize bool) []op {
	n := rapid.IntRange(1, 45).Draw(t, "nops")
	var ops []op
	for i := 0; i < n; i++ {
		k := rapid.IntRange(0, 38).Draw(t, "op")
		switch {
		case k == 38 && withResize:
			// the application stops polling and the event queue is full (or
			// it takes polling up again)
			ops = append(ops, op{Kind: "queuefull", Lock: rapid.IntRange(0, 2).Draw(t, "qfull") != 0})
		case k == 37:
			// a region locked again on every redraw (as _demos/sixel.go does)
			// and unlocked once: it is unlocked
			o := op{Kind: "lock", X: rapid.IntRange(0, maxW-1).Draw(t, "rlx"), Y: rapid.IntRange(0, maxH-1).Draw(t, "rly"),
				W: rapid.IntRange(1, 4).Draw(t, "rlw"), H: rapid.IntRange(1, 3).Draw(t, "rlh"), Lock: true}
			ops = append(ops, o)
			for j, m := 0, rapid.IntRange(1, 3).Draw(t, "relocks"); j < m; j++ {
				ops = append(ops, op{Kind: "show"}, o)
			}
			o.Lock = false
			ops = append(ops, o, op{Kind: "show"})
		case k == 36 && withResize && maxW > 2:
			// the cursor is asked for at a cell the window does not have yet;
			// when the window has grown it is shown there
			sw := rapid.IntRange(1, maxW-1).Draw(t, "growfrom")
			ops = append(ops, op{Kind: "resize", W: sw, H: maxH, Quiet: true},
				op{Kind: "cursor", X: rapid.IntRange(sw, maxW-1).Draw(t, "growcx"), Y: rapid.IntRange(0, maxH-1).Draw(t, "growcy")},
				op{Kind: "resize", W: maxW, H: maxH, Quiet: true}, op{Kind: "show"})
		case k >= 34:
			o := op{Kind: "reset-same", X: rapid.IntRange(0, maxW-1).Draw(t, "sx"), Y: rapid.IntRange(0, maxH-1).Draw(t, "sy")}
			switch rapid.IntRange(0, 3).Draw(t, "samekind") {
			case 0:
				// the same content, only the underline differs (its style and colour)
				o.Kind = "restyle-ul"
				o.CS = tcell.CursorStyle(rapid.IntRange(1, 5).Draw(t, "newul"))
				o.Col = rapid.SampledFrom([]tcell.Color{tcell.ColorDefault, tcell.ColorRed, tcell.NewRGBColor(1, 200, 3), tcell.PaletteColor(700)}).Draw(t, "newulc")
			case 1:
				// text that merely looks like a padding specification
				o.Kind = "dollar-run"
				o.Seed = rapid.IntRange(0, 9).Draw(t, "dollardigit")
			case 2:
				// a blank whose foreground alone changes between two Shows
				// (a bar in reverse video, an underlined input field)
				st := lm.Style{Fg: tcell.PaletteColor(rapid.IntRange(1, 7).Draw(t, "blankfg")), Bg: rapid.SampledFrom([]tcell.Color{tcell.ColorDefault, tcell.ColorNavy}).Draw(t, "blankbg"),
					Attrs: rapid.SampledFrom([]tcell.AttrMask{tcell.AttrReverse, tcell.AttrStrikeThrough, tcell.AttrNone}).Draw(t, "blankattr")}
				if st.Attrs == tcell.AttrNone {
					st.Ul = tcell.UnderlineStyleSolid
				}
				st2 := st
				st2.Fg = tcell.PaletteColor((int(st.Fg-tcell.ColorValid) % 7) + 1)
				ops = append(ops, op{Kind: "set", X: o.X, Y: o.Y, R: ' ', St: st}, op{Kind: "show"},
					op{Kind: "set", X: o.X, Y: o.Y, R: ' ', St: st2}, op{Kind: "show"})
				continue
			}
			// (default: store again exactly what the cell already holds)
			ops = append(ops, o)
		case k == 32 && withResize:
			// the terminal is lent to another program and taken back
			o := op{Kind: "suspend-resume"}
			switch rapid.IntRange(0, 3).Draw(t, "srsize") {
			case 0:
				// the window changes size while the screen is suspended
				o.W, o.H = rapid.IntRange(1, maxW).Draw(t, "srw"), rapid.IntRange(1, maxH).Draw(t, "srh")
			case 1:
				// ... and is back at the old size right after Resume
				o.W, o.H = rapid.IntRange(1, maxW).Draw(t, "srw"), rapid.IntRange(1, maxH).Draw(t, "srh")
				o.Quiet = true
			}
			ops = append(ops, o)
		case k == 33 && withResize:
			// the next write to the tty fails outright (0) or after a few bytes
			ops = append(ops, op{Kind: "writefault", Seed: rapid.SampledFrom([]int{0, 0, 1, 3, 9, 20, 50}).Draw(t, "wfbytes")})
		case k == 30 || k == 31:
			// a run of mostly wide runes stored in adjacent columns (each
			// hides the next), ending at the right edge: overlapping wide
			// runes are where "which cell is visible" gets decided
			x0 := maxW - rapid.IntRange(1, 5).Draw(t, "runfromright")
			y := rapid.IntRange(0, maxH-1).Draw(t, "runy")
			if rapid.Bool().Draw(t, "runbottom") {
				y = maxH - 1
			}
			st := drawStyle(t)
			nr := rapid.IntRange(2, 5).Draw(t, "runlen")
			for j := 0; j < nr; j++ {
				r := rune(rapid.IntRange(0x4e00, 0x4e40).Draw(t, "runcjk"))
				if rapid.IntRange(0, 3).Draw(t, "runnarrow") == 0 {
					r = rune(rapid.IntRange(0x41, 0x5a).Draw(t, "runascii"))
				}
				ops = append(ops, op{Kind: "set", X: x0 + j, Y: y, R: r, St: st})
			}
		case k < 12:
			o := op{Kind: "set", X: rapid.IntRange(-2, maxW+1).Draw(t, "x"), Y: rapid.IntRange(-2, maxH+1).Draw(t, "y"), R: drawRune(t), St: drawStyle(t)}
			if maxW > 256 && rapid.Bool().Draw(t, "mirror") {
				// pairs of columns 256 apart in the same rows
				o.X = rapid.IntRange(0, 3).Draw(t, "mx") + 256*rapid.IntRange(0, 1).Draw(t, "mside")
				o.Y = rapid.IntRange(0, maxH-1).Draw(t, "my")
			} else if rapid.IntRange(0, 3).Draw(t, "edge") == 0 {
				// bias towards the right edge and the bottom row, where the
				// wide-rune and corner special cases live
				o.X = maxW - rapid.IntRange(0, 3).Draw(t, "fromright")
				if rapid.Bool().Draw(t, "bottom") {
					o.Y = maxH - 1
				}
			}
			o.Late = rapid.Bool().Draw(t, "latereuse")
			if lm.Width(o.R) >= 1 && rapid.IntRange(0, 5).Draw(t, "hascomb") == 0 {
				nc := rapid.IntRange(1, 3).Draw(t, "ncomb")
				for j := 0; j < nc; j++ {
					o.Comb = append(o.Comb, rapid.SampledFrom(combMarks).Draw(t, "comb"))
				}
			}
			ops = append(ops, o)
		case k < 18:
			ops = append(ops, op{Kind: "show"})
		case k < 20:
			ops = append(ops, op{Kind: "sync"})
		case k == 20:
			fr := rune(rapid.IntRange(0x20, 0x7e).Draw(t, "fillr"))
			if fr == '$' {
				fr = '#'
			}
			ops = append(ops, op{Kind: "fill", R: fr, St: drawStyle(t)})
		case k == 21:
			ops = append(ops, op{Kind: "clear"})
		case k == 22:
			ops = append(ops, op{Kind: "setstyle", St: drawStyle(t)})
		case k == 23:
			// (also positions scrolled out to the left or above by more than one cell)
			ops = append(ops, op{Kind: "cursor", X: rapid.IntRange(-4, maxW+2).Draw(t, "cx"), Y: rapid.IntRange(-4, maxH+2).Draw(t, "cy")})
		case k == 24:
			o := op{Kind: "curstyle", CS: tcell.CursorStyle(rapid.IntRange(0, 6).Draw(t, "cs")), Col: tcell.ColorNone}
			switch rapid.IntRange(0, 5).Draw(t, "cscol") {
			case 4:
				o.Col = tcell.PaletteColor(rapid.IntRange(256, 2000).Draw(t, "ccbig"))
			case 5:
				o.Col = tcell.NewHexColor(int32(-0x1000000 | rapid.IntRange(0, 0xffffff).Draw(t, "ccargb")))
			case 0:
				o.Col = tcell.NewRGBColor(int32(rapid.IntRange(0, 255).Draw(t, "ccr")), 16, 255)
			case 1:
				o.Col = tcell.ColorReset
			case 2:
				o.Col = tcell.PaletteColor(rapid.IntRange(0, 255).Draw(t, "ccp"))
			}
			ops = append(ops, o)
		case k == 25 || k == 26:
			ops = append(ops, op{Kind: "lock", X: rapid.IntRange(-1, maxW).Draw(t, "lx"), Y: rapid.IntRange(-1, maxH).Draw(t, "ly"),
				W: rapid.IntRange(0, 4).Draw(t, "lw"), H: rapid.IntRange(0, 3).Draw(t, "lh"), Lock: rapid.IntRange(0, 2).Draw(t, "lock") != 0})
		case k == 27 && withResize:
			ops = append(ops, op{Kind: "resize", W: rapid.IntRange(1, maxW).Draw(t, "rw"), H: rapid.IntRange(1, maxH).Draw(t, "rh"), Quiet: rapid.IntRange(0, 3).Draw(t, "quiet") != 0})
		case k == 28 && withResize:
			ops = append(ops, op{Kind: "corrupt", Seed: rapid.IntRange(0, 1000).Draw(t, "cseed")})
		case k == 29 && withResize:
			ops = append(ops, op{Kind: "winsizefail", Lock: rapid.Bool().Draw(t, "wsfail")})
		default:
			ops = append(ops, op{Kind: "show"})
		}
	}
	return ops
}

// ----------------------------------------------------------------- world --

type dw struct {
	*hx.World
	T       *vt.Term
	M       *lm.Model
	prop    string
	ops     []op
	inited  bool
	initErr error

	// C13 bookkeeping
	block        int
	lastShow     []lm.Glyph // rendering at the previous clean Show
	lastVer      []int
	lastLocked   []bool
	dirtyHist    bool // a Sync, resize, corruption or default-style change since the previous Show
	corrupted    bool
	drewDollar   bool     // the history itself drew "$<n>" as text
	scratches    [][]rune // combining slices passed to SetContent, reused after the next Show
	lost         bool     // a tty write failed: the terminal missed (part of) a frame
	writeFault   bool     // a write fault fired since the last Show/Sync was judged
	racing       bool     // a non-quiet resize happened: fidelity is suspended until the final repaint
	libWrites    int      // writes by the library's own goroutines since the last Show
	showsChecked int
	blocks       [][]byte
	curBlock     []byte
	writer       string
	tornShow     bool
	charset      encoding.Encoding
	fallbacks    map[rune]string
	opPen        *vt.Pen
	inCall       string
	allowAppIO   bool
	exempt       map[string]bool
}

func charsetOf(locale string) encoding.Encoding {
	if locale == "" {
		return nil
	}
	i := strings.IndexByte(locale, '.')
	if i < 0 {
		return nil
	}
	name := locale[i+1:]
	if strings.EqualFold(name, "UTF-8") {
		return nil
	}
	if e := refEncoding(name); e != nil {
		return e
	}
	return tcell.GetEncoding(name)
}

// refEncoding is the reference terminal's own idea of a character set, taken
// from golang.org/x/text by the standard's name - not from the library's
// registry, which is part of what is being checked (a registry that hands
// out windows-1252 for ISO8859-1 makes the screen send C1 controls).
func refEncoding(name string) encoding.Encoding {
	n := strings.ToUpper(strings.NewReplacer("_", "", "-", "", " ", "").Replace(name))
	switch n {
	case "ISO88591", "LATIN1":
		return charmap.ISO8859_1
	case "ISO88592":
		return charmap.ISO8859_2
	case "ISO88593":
		return charmap.ISO8859_3
	case "ISO88594":
		return charmap.ISO8859_4
	case "ISO88595":
		return charmap.ISO8859_5
	case "ISO88596":
		return charmap.ISO8859_6
	case "ISO88597":
		return charmap.ISO8859_7
	case "ISO88598":
		return charmap.ISO8859_8
	case "ISO88599":
		return charmap.ISO8859_9
	case "ISO885910":
		return charmap.ISO8859_10
	case "ISO885913":
		return charmap.ISO8859_13
	case "ISO885914":
		return charmap.ISO8859_14
	case "ISO885915":
		return charmap.ISO8859_15
	case "ISO885916":
		return charmap.ISO8859_16
	case "KOI8R":
		return charmap.KOI8R
	case "KOI8U":
		return charmap.KOI8U
	case "SHIFTJIS", "SJIS":
		return japanese.ShiftJIS
	case "EUCJP":
		return japanese.EUCJP
	case "EUCKR":
		return korean.EUCKR
	case "GBK":
		return simplifiedchinese.GBK
	case "GB18030":
		return simplifiedchinese.GB18030
	case "BIG5":
		return traditionalchinese.Big5
	}
	return nil
}

func newDW(cfg hx.Config, ch *simrt.Chooser, prop string) (*dw, error) {
	world, err := hx.NewWorld(cfg, ch)
	if err != nil {
		return nil, err
	}
	w := &dw{World: world, prop: prop, fallbacks: map[rune]string{}}
	w.charset = charsetOf(cfg.Locale)
	w.T = vt.New(cfg.W, cfg.H, w.charset)
	w.T.Corrupt(7) // arbitrary previous contents
	w.T.PCAlt = strings.Contains(w.Ti.EnterAcs, "\x1b[11m") || strings.Contains(w.Ti.EnterAcs, "\x1b[12m")
	w.M = lm.New(cfg.W, cfg.H)
	w.S.TraceOn = hx.Replaying()
	w.Tty.OnWrite = func(g string, b []byte) {
		if i := bytes.Index(b, []byte("$<")); i >= 0 && prop != "C04" && !w.drewDollar {
			end := i + 12
			if end > len(b) {
				end = len(b)
			}
			w.fail("C09/syntax", "a padding specification reached the terminal as text: %q", b[i:end])
		}
		w.T.Block = w.block
		w.T.Write(b)
		if g != "app" {
			w.libWrites++
		}
	}
	w.Tty.OnFault = func(kind string) {
		// the cut may fall inside a control sequence or a character
		w.T.AbortSequence()
		w.writeFault = true
	}
	return w, nil
}

// ---- expectations derived from the terminal description ----

func (w *dw) xtermLike() bool {
	return w.Ti.XTermLike || strings.HasPrefix(w.Ti.Name, "xterm")
}

// expColor maps a tcell colour to what the terminal should have selected:
// a list of acceptable vt colours.
func (w *dw) expColor(c tcell.Color) (acc []vt.Color, constrained bool) {
	ti := w.Ti
	if ti.Colors == 0 {
		return nil, false // monochrome: the statement defines no colour mapping
	}
	if !c.Valid() {
		// default (also ColorReset): the terminal's default colour, which a
		// few descriptions define through "op" as a palette pair
		acc = []vt.Color{{}}
		if w.opPen == nil {
			sc := vt.New(2, 1, nil)
			sc.Write([]byte(stripPad(ti.ResetFgBg)))
			w.opPen = &sc.Pen
		}
		acc = append(acc, w.opPen.Fg, w.opPen.Bg)
		return acc, true
	}
	n := ti.Colors
	if n > 256 {
		n = 256
	}
	if c.IsRGB() {
		r, g, b := c.RGB()
		if ti.SetFgRGB != "" || ti.SetFgBgRGB != "" {
			return []vt.Color{{Kind: vt.ColRGB, V: int(r)<<16 | int(g)<<8 | int(b)}}, true
		}
		for _, i := range lm.Nearest(int(r), int(g), int(b), n) {
			acc = append(acc, vt.Color{Kind: vt.ColPalette, V: i})
		}
		return acc, true
	}
	idx := int(c & 0xffffff)
	if idx < n {
		return []vt.Color{{Kind: vt.ColPalette, V: idx}}, true
	}
	// a named colour beyond the terminal's palette: nearest entry
	r, g, b := c.RGB()
	if r < 0 {
		return nil, false
	}
	for _, i := range lm.Nearest(int(r), int(g), int(b), n) {
		acc = append(acc, vt.Color{Kind: vt.ColPalette, V: i})
	}
	return acc, true
}

func colorIn(c vt.Color, acc []vt.Color) bool {
	for _, a := range acc {
		if a == c {
			return true
		}
	}
	return false
}

// expAttr maps tcell attribute bits to vt bits the description can express.
func (w *dw) expAttr(a tcell.AttrMask) int {
	ti := w.Ti
	out := 0
	if a&tcell.AttrBold != 0 && ti.Bold != "" {
		out |= vt.AttrBold
	}
	if a&tcell.AttrBlink != 0 && ti.Blink != "" {
		out |= vt.AttrBlink
	}
	if a&tcell.AttrReverse != 0 && ti.Reverse != "" {
		out |= vt.AttrReverse
	}
	if a&tcell.AttrDim != 0 && ti.Dim != "" {
		out |= vt.AttrDim
	}
	if a&tcell.AttrItalic != 0 && ti.Italic != "" {
		out |= vt.AttrItalic
	}
	if a&tcell.AttrStrikeThrough != 0 && ti.StrikeThrough != "" {
		out |= vt.AttrStrike
	}
	return out
}

// glyphOK compares one terminal cell with the expected glyph.
func (w *dw) glyphOK(x, y int, g lm.Glyph) string {
	c := w.T.At(x, y)
	if g.Hidden {
		if c.Width != 0 {
			return fmt.Sprintf("second column of a wide glyph shows %q", c.Text())
		}
		return ""
	}
	if c.Junk {
		return "cell still shows content that was never drawn by the application (stale/foreign)"
	}
	wantR := g.R
	if c.R != wantR {
		if !(g.AltInvalid && c.R == 0xfffd) {
			if w.charset == nil || !w.legacyOK(c, g) {
				return fmt.Sprintf("shows %q, expected %q", c.Text(), string(wantR)+string(g.Comb))
			}
		}
	} else if w.charset == nil && string(c.Comb) != string(g.Comb) {
		return fmt.Sprintf("shows %q (combining % x), expected combining % x", c.Text(), c.Comb, g.Comb)
	}
	if c.Width != g.Width {
		return fmt.Sprintf("glyph %q occupies %d columns, expected %d", c.Text(), c.Width, g.Width)
	}
	if g.StyleUncon {
		return ""
	}
	msg := w.styleOK(c, g.St)
	if msg != "" {
		for _, alt := range g.AltSt {
			if w.styleOK(c, alt) == "" {
				return ""
			}
		}
	}
	return msg
}

// styleOK compares the pen of a terminal cell with a requested style.
func (w *dw) styleOK(c *vt.Cell, st lm.Style) string {
	if w.Ti.Colors != 0 {
		if acc, ok := w.expColor(st.Fg); ok && !colorIn(c.Pen.Fg, acc) {
			return fmt.Sprintf("foreground %v, expected %v (style %+v)", c.Pen.Fg, acc, st)
		}
		if acc, ok := w.expColor(st.Bg); ok && !colorIn(c.Pen.Bg, acc) {
			return fmt.Sprintf("background %v, expected %v (style %+v)", c.Pen.Bg, acc, st)
		}
		if want := w.expAttr(st.Attrs); c.Pen.Attr != want {
			return fmt.Sprintf("attributes %06b, expected %06b (style %+v)", c.Pen.Attr, want, st)
		}
	} else {
		// monochrome: reverse video is used to approximate colours
		want := w.expAttr(st.Attrs &^ tcell.AttrReverse)
		if c.Pen.Attr&^vt.AttrReverse != want {
			return fmt.Sprintf("attributes %06b, expected %06b modulo reverse (style %+v)", c.Pen.Attr, want, st)
		}
	}
	// underline
	if st.Ul == tcell.UnderlineStyleNone {
		if c.Pen.Ul != 0 {
			return fmt.Sprintf("underlined (style %d) but no underline was requested", c.Pen.Ul)
		}
	} else if w.Ti.Underline != "" {
		if c.Pen.Ul == 0 {
			return fmt.Sprintf("not underlined, underline style %d was requested", st.Ul)
		}
		if c.Pen.Ul != int(st.Ul) && (w.xtermLike() || c.Pen.Ul != 1) {
			return fmt.Sprintf("underline style %d, requested %d", c.Pen.Ul, st.Ul)
		}
		if st.UlC.Valid() && w.xtermLike() && w.Ti.Colors != 0 {
			var acc []vt.Color
			if st.UlC.IsRGB() {
				r, g2, b := st.UlC.RGB()
				acc = []vt.Color{{Kind: vt.ColRGB, V: int(r)<<16 | int(g2)<<8 | int(b)}}
			} else {
				acc = []vt.Color{{Kind: vt.ColPalette, V: int(st.UlC & 0xff)}}
			}
			if !colorIn(c.Pen.UlColor, acc) {
				return fmt.Sprintf("underline colour %v, expected %v", c.Pen.UlColor, acc)
			}
		} else if !st.UlC.Valid() && c.Pen.UlColor != (vt.Color{}) {
			return fmt.Sprintf("underline colour %v but none was requested", c.Pen.UlColor)
		}
	}
	// hyperlink
	if st.URL == "" {
		if c.Pen.Link != "" {
			return fmt.Sprintf("carries hyperlink %q but none was requested", c.Pen.Link)
		}
	} else if c.Pen.Link != "" || (w.xtermLike() && !strings.Contains(w.Ti.Name, "linux")) {
		wantID := ""
		if st.URLID != "" {
			wantID = "id=" + st.URLID
		}
		if c.Pen.Link != st.URL || c.Pen.LinkID != wantID {
			return fmt.Sprintf("hyperlink %q id %q, expected %q id %q", c.Pen.Link, c.Pen.LinkID, st.URL, wantID)
		}
	}
	return ""
}

// legacyOK is filled in by the C17 oracle (c17_test.go); in UTF-8 runs it is
// never reached.
func (w *dw) legacyOK(c *vt.Cell, g lm.Glyph) bool { return legacyGlyphOK(w, c, g) }

// compare checks the whole display against the model; it returns the first
// mismatch.
func (w *dw) compare(when string) string {
	if w.T.W != w.M.W || w.T.H != w.M.H {
		return ""
	}
	for y := 0; y < w.M.H; y++ {
		row := w.M.Row(y)
		for x, g := range row {
			if g.Skip {
				continue
			}
			if msg := w.glyphOK(x, y, g); msg != "" {
				return fmt.Sprintf("%s: cell (%d,%d) %s", when, x, y, msg)
			}
		}
	}
	return ""
}

func (w *dw) compareCursor(when string) string {
	m := w.M
	t := w.T
	if m.In(m.CurX, m.CurY) {
		if w.Ti.ShowCursor != "" && !t.CursorVisible {
			return fmt.Sprintf("%s: cursor requested at (%d,%d) but the terminal cursor is hidden", when, m.CurX, m.CurY)
		}
		if t.CX != m.CurX || t.CY != m.CurY {
			return fmt.Sprintf("%s: cursor requested at (%d,%d), terminal cursor is at (%d,%d)", when, m.CurX, m.CurY, t.CX, t.CY)
		}
		return ""
	}
	if w.Ti.HideCursor != "" {
		if t.CursorVisible {
			return fmt.Sprintf("%s: cursor should be hidden (requested %d,%d) but is visible at (%d,%d)", when, m.CurX, m.CurY, t.CX, t.CY)
		}
	} else if t.CX != t.W-1 || t.CY != t.H-1 {
		return fmt.Sprintf("%s: terminal cannot hide the cursor: it should be parked at the bottom-right corner, is at (%d,%d)", when, t.CX, t.CY)
	}
	return ""
}

// ---- the application actor ----

func (w *dw) fail(tag, format string, args ...interface{}) {
	w.Failf(tag, format, args...)
}

func (w *dw) snapshot() {
	w.lastShow = w.lastShow[:0]
	w.lastVer = w.lastVer[:0]
	w.lastLocked = w.lastLocked[:0]
	for y := 0; y < w.M.H; y++ {
		w.lastShow = append(w.lastShow, w.M.Row(y)...)
	}
	for i := range w.M.Cells {
		w.lastVer = append(w.lastVer, w.M.Cells[i].Ver)
		w.lastLocked = append(w.lastLocked, w.M.Cells[i].Locked)
		if !w.M.Cells[i].Locked {
			w.M.Cells[i].Dirtied = false
			w.M.Cells[i].WideDirt = false
		}
	}
}

func sameGlyph(a, b lm.Glyph) bool {
	return a.R == b.R && a.Width == b.Width && a.Hidden == b.Hidden && a.St == b.St && string(a.Comb) == string(b.Comb)
}

// checkStamps is the C13 oracle for the block just written.
func (w *dw) checkStamps() {
	m := w.M
	if len(w.lastShow) != m.W*m.H {
		return
	}
	w.showsChecked++
	var now []lm.Glyph
	for y := 0; y < m.H; y++ {
		now = append(now, m.Row(y)...)
	}
	allowed := make([]bool, m.W*m.H)
	mark := func(x, y int) {
		if x >= 0 && x < m.W && y >= 0 && y < m.H {
			allowed[y*m.W+x] = true
		}
	}
	for y := 0; y < m.H; y++ {
		for x := 0; x < m.W; x++ {
			i := y*m.W + x
			// changed: the stored rune, combining runes or style were
			// modified since the previous Show (a transient change counts:
			// the statement speaks of cells "whose rune, combining runes or
			// style changed"), the default style resolution changed the
			// appearance, or the cell was unlocked.
			changed := m.Cells[i].Dirtied || !sameGlyph(now[i], w.lastShow[i]) || (w.lastLocked[i] && !m.Cells[i].Locked)
			if changed {
				mark(x, y)
				// columns covered or uncovered by a changed wide rune
				if now[i].Width == 2 || w.lastShow[i].Width == 2 || now[i].Hidden || w.lastShow[i].Hidden || m.Cells[i].WideDirt {
					mark(x-1, y)
					mark(x+1, y)
				}
			}
		}
	}
	ti := w.Ti
	if ti.AutoMargin && ti.DisableAutoMargin == "" && ti.InsertChar != "" && allowed[m.W*m.H-1] && m.W >= 2 {
		// the neighbour used to paint the corner: the cell to its left, or
		// the wide glyph whose second column that is
		mark(m.W-2, m.H-1)
		if g := now[m.W*m.H-2]; g.Hidden {
			mark(g.X, m.H-1)
		}
	}
	nochange := true
	for _, a := range allowed {
		if a {
			nochange = false
		}
	}
	for y := 0; y < m.H; y++ {
		for x := 0; x < m.W; x++ {
			i := y*m.W + x
			c := w.T.At(x, y)
			if c.Stamp != w.block {
				continue
			}
			if c.Width == 0 {
				continue // second column of a wide glyph: judged at its first column
			}
			if m.Cells[i].Locked && w.lastLocked[i] {
				w.fail("C13/locked-write", "Show #%d printed into locked cell (%d,%d): %q", w.block, x, y, c.Text())
				return
			}
			if !allowed[i] && !m.Cells[i].Locked {
				if nochange {
					w.fail("C13/extra-write", "Show #%d wrote cell content although nothing changed since the previous Show: cell (%d,%d) %q", w.block, x, y, c.Text())
				} else {
					w.fail("C13/extra-write", "Show #%d printed into unchanged cell (%d,%d) %q (changed cells: %s)", w.block, x, y, c.Text(), listAllowed(allowed, m.W))
				}
				return
			}
		}
	}
	// unlocked-again cells must be repainted
	for i := range m.Cells {
		if w.lastLocked[i] && !m.Cells[i].Locked && !m.Cells[i].Unknown {
			x, y := i%m.W, i/m.W
			g := now[i]
			if g.Hidden {
				continue
			}
			if w.T.At(x, y).Stamp != w.block {
				w.fail("C13/unlock-repaint", "cell (%d,%d) was unlocked before Show #%d but was not repainted by it", x, y, w.block)
				return
			}
		}
	}
}

func listAllowed(a []bool, w int) string {
	var s []string
	for i, ok := range a {
		if ok {
			s = append(s, fmt.Sprintf("(%d,%d)", i%w, i/w))
		}
		if len(s) > 12 {
			s = append(s, "...")
			break
		}
	}
	return strings.Join(s, " ")
}

func (w *dw) afterShow(kind string) {
	if w.Fail != nil {
		return
	}
	if len(w.T.Errors) > 0 {
		w.fail("C09/syntax", "after %s #%d the terminal rejected the output: %s", kind, w.block, strings.Join(w.T.Errors, "; "))
		return
	}
	if !w.T.InGround() {
		w.fail("C09/syntax", "%s #%d ended inside an unterminated control sequence", kind, w.block)
		return
	}
	w.M.Painted(kind == "Sync")
	fault := w.writeFault
	w.writeFault = false
	if fault {
		// (part of) this frame never reached the terminal: what it shows
		// is unknown until a complete repaint gets through
		w.lost = true
	}
	if w.racing || w.prop == "C09" {
		return // C09 runs judge the syntax of the stream only
	}
	if w.corrupted && kind != "Sync" {
		return
	}
	if kind == "Sync" {
		w.corrupted = false
		if !fault {
			w.lost = false
		}
	}
	if !w.lost {
		if msg := w.compare(fmt.Sprintf("after %s #%d", kind, w.block)); msg != "" {
			tag := "C01/cell"
			if kind == "Sync" {
				tag = "C01/after-sync"
			}
			if w.charset != nil {
				tag = "C17/glyph"
			}
			w.fail(tag, "%s", msg)
			return
		}
		if msg := w.compareCursor(fmt.Sprintf("after %s #%d", kind, w.block)); msg != "" {
			w.fail("C01/cursor", "%s", msg)
			return
		}
	}
	if fault {
		// the cut frame itself is not judged; the next Show is
		w.dirtyHist = true
	}
	if kind == "Show" && !w.dirtyHist && w.libWrites == 0 {
		w.checkStamps()
	}
	w.dirtyHist = false
	w.libWrites = 0
	w.snapshot()
}

func (w *dw) appActor() {
	if err := w.Scr.Init(); err != nil {
		w.initErr = err
		w.inited = true
		return
	}
	w.inited = true
	sc := w.Scr
	for _, o := range w.ops {
		if w.Fail != nil {
			return
		}
		switch o.Kind {
		case "set":
			// the combining runes are passed in a scratch slice that the
			// application reuses afterwards: the screen must have copied it
			scratch := append([]rune(nil), o.Comb...)
			sc.SetContent(o.X, o.Y, o.R, scratch, o.St.Build())
			if o.Late {
				w.scratches = append(w.scratches, scratch)
			} else {
				for i := range scratch {
					scratch[i] = 0x1b
				}
			}
			w.M.SetContent(o.X, o.Y, o.R, o.Comb, o.St)
		case "reset-same":
			if w.M.In(o.X, o.Y) {
				if c := w.M.At(o.X, o.Y); !c.Unknown && !c.StyleUncon {
					sc.SetContent(o.X, o.Y, c.R, append([]rune(nil), c.Comb...), c.St.Build())
					w.M.SetContent(o.X, o.Y, c.R, c.Comb, c.St)
				}
			}
		case "restyle-ul":
			if w.M.In(o.X, o.Y) {
				if c := w.M.At(o.X, o.Y); !c.Unknown && !c.StyleUncon {
					st := c.St
					if st.IsZero() {
						st.Fg = tcell.ColorGreen // (a cell of its own style, so that the underline is the cell's)
					}
					st.Ul, st.UlC = tcell.UnderlineStyle(o.CS), o.Col
					st.Attrs |= tcell.AttrUnderline
					sc.SetContent(o.X, o.Y, c.R, append([]rune(nil), c.Comb...), st.Build())
					w.M.SetContent(o.X, o.Y, c.R, c.Comb, st)
				}
			}
		case "dollar-run":
			// legitimate cell content: from here on "$<" on the wire proves nothing
			w.drewDollar = true
			for i, r := range []rune{'$', '<', rune('0' + o.Seed), '>', '/'} {
				sc.SetContent(o.X+i, o.Y, r, nil, tcell.StyleDefault)
				w.M.SetContent(o.X+i, o.Y, r, nil, lm.Style{})
			}
		case "fill":
			sc.Fill(o.R, o.St.Build())
			w.M.Fill(o.R, o.St)
		case "suspend-resume":
			_ = sc.Suspend()
			ow, oh := w.Tty.W, w.Tty.H
			if o.W > 0 {
				// no notification reaches a suspended screen (the size
				// query works again: a size that cannot be queried cannot
				// be followed)
				w.Tty.WinSizeFail = false
				w.Tty.Resize(o.W, o.H)
				w.T.Resize(o.W, o.H)
				w.T.Corrupt(o.W*17 + o.H)
				w.Tty.Faults.Inc("resized_while_suspended")
			}
			if err := sc.Resume(); err != nil {
				w.fail(w.prop+"/stall", "Resume failed: %v", err)
				return
			}
			if o.W > 0 && o.Quiet {
				w.Tty.Resize(ow, oh)
				w.T.Resize(ow, oh)
				w.T.Corrupt(ow*13 + oh)
			}
			if o.W > 0 {
				// no notification was delivered: a Show lets the library find
				// the size out (a complete repaint, as after a quiet resize);
				// only then does the application draw at the new size
				w.block++
				sc.Show()
				w.M.Resize(w.Tty.W, w.Tty.H)
				w.corrupted = false
			}
			w.Tty.Faults.Inc("suspend_resume")
			// as applications do, start from a blank logical screen
			sc.LockRegion(0, 0, 1000, 1000, false)
			sc.Clear()
			w.M.Lock(0, 0, 1000, 1000, false)
			w.M.Fill(' ', lm.Style{})
			w.M.ResetPaint()
			w.dirtyHist = true
			w.lastShow = nil
		case "writefault":
			if o.Seed == 0 {
				w.Tty.FailWrites = 1
			} else {
				w.Tty.ShortWrite = o.Seed
			}
		case "clear":
			sc.Clear()
			w.M.Fill(' ', lm.Style{})
		case "setstyle":
			sc.SetStyle(o.St.Build())
			w.M.SetStyle(o.St)
			w.dirtyHist = true
		case "cursor":
			sc.ShowCursor(o.X, o.Y)
			w.M.CurX, w.M.CurY = o.X, o.Y
		case "curstyle":
			if o.Col == tcell.ColorNone {
				sc.SetCursorStyle(o.CS)
			} else {
				sc.SetCursorStyle(o.CS, o.Col)
			}
			w.M.CurSt, w.M.CurCol = o.CS, o.Col
		case "lock":
			sc.LockRegion(o.X, o.Y, o.W, o.H, o.Lock)
			w.M.Lock(o.X, o.Y, o.W, o.H, o.Lock)
		case "show":
			w.block++
			sc.Show()
			w.afterShow("Show")
			// the application now reuses the slices it passed before this Show
			// (for other, perfectly valid, combining marks)
			for _, sl := range w.scratches {
				for i := range sl {
					if sl[i] == 0x0323 {
						sl[i] = 0x0308
					} else {
						sl[i] = 0x0323
					}
				}
			}
			w.scratches = w.scratches[:0]
		case "sync":
			w.block++
			sc.Sync()
			w.dirtyHist = true
			w.afterShow("Sync")
			w.dirtyHist = false
		case "corrupt":
			w.T.Corrupt(o.Seed)
			w.Tty.Faults.Inc("corrupt")
			w.corrupted = true
			w.dirtyHist = true
		case "resize":
			w.Tty.WinSizeFail = false
			w.doResize(o)
		case "queuefull":
			if p := w.S.Find("poller"); p != nil {
				if o.Lock {
					w.S.Stall(p)
					for sc.PostEvent(tcell.NewEventInterrupt(nil)) == nil {
					}
					w.Tty.Faults.Inc("event_queue_full")
				} else {
					w.S.Unstall(p)
				}
			}
		case "winsizefail":
			// the size query fails for a while: the library must keep drawing
			// at the size it knows (the size itself does not change meanwhile)
			w.Tty.WinSizeFail = o.Lock
		}
	}
}

func (w *dw) doResize(o op) {
	w.Tty.Faults.Inc("resize")
	w.dirtyHist = true
	w.Tty.Resize(o.W, o.H)
	w.T.Resize(o.W, o.H)
	// the terminal's new area (and, for good measure, everything) holds
	// arbitrary contents after a resize
	w.T.Corrupt(o.W*31 + o.H)
	w.M.Resize(o.W, o.H)
	w.lastShow = nil
	if !o.Quiet {
		// the callback races with the application's further drawing
		w.racing = true
		w.Tty.FireResize()
		return
	}
	w.Tty.FireResize()
	// quiet resize: the application waits until the library has handled
	// the notification (quiescence), then the display must be right.
	q := tcell.VerifEventQ(w.Scr)
	simrt.Wait("resize-handled", func() bool { return w.libIdle() })
	_ = q
	w.block++
	w.M.Repainted()
	if len(w.T.Errors) > 0 {
		w.fail("C09/syntax", "after a resize redraw the terminal rejected the output: %s", strings.Join(w.T.Errors, "; "))
		return
	}
	if w.writeFault {
		w.writeFault = false
		w.lost = true
		return
	}
	if w.corrupted {
		w.corrupted = false // the resize redraw repaints everything
	}
	w.lost = false
	if w.racing {
		return
	}
	if msg := w.compare(fmt.Sprintf("after resize to %dx%d", o.W, o.H)); msg != "" {
		tag := "C01/after-resize"
		if w.charset != nil {
			tag = "C17/glyph"
		}
		w.fail(tag, "%s", msg)
	}
}

// libIdle says the library's goroutines are parked with nothing to do.
func (w *dw) libIdle() bool {
	for _, g := range w.LibGoroutines() {
		if g.Done() {
			continue
		}
		if !w.S.IsParkedIdle(g) {
			return false
		}
	}
	return true
}

func (w *dw) sample() interface{} {
	var ops []string
	for i, o := range w.ops {
		if i >= 12 {
			ops = append(ops, "...")
			break
		}
		ops = append(ops, o.String())
	}
	return map[string]interface{}{"config": w.Cfg.String(), "ops": ops, "shows_stamp_checked": w.showsChecked,
		"faults": w.Tty.Faults.Map(), "decisions": w.S.Steps, "bytes_written": w.Tty.WriteOut}
}

// ------------------------------------------------------------------- run --

func runDraw(t *rapid.T, prop string) {
	if hx.PastDeadline() {
		return
	}
	fam := ecmaFamily()
	cfg := hx.DrawConfig(t, fam, 12, 6)
	if prop == "C13" {
		cfg.W, cfg.H = rapid.IntRange(2, 10).Draw(t, "w13"), rapid.IntRange(1, 5).Draw(t, "h13")
	}
	if rapid.IntRange(0, 15).Draw(t, "wide") == 0 {
		// a window wider than 256 columns (cursor addresses beyond one byte)
		cfg.W, cfg.H = rapid.IntRange(257, 300).Draw(t, "widew"), rapid.IntRange(1, 3).Draw(t, "wideh")
	}
	if prop == "C09" {
		cfg.Locale = rapid.SampledFrom([]string{"", "", "en_US.ISO8859-1", "en_US.KOI8-R", "C"}).Draw(t, "locale09")
	}
	ops := drawOps(t, cfg.W, cfg.H, prop != "C13" || true)
	ch := hx.DrawChooser(t, 100)
	hx.Arm(prop)
	defer hx.Disarm()
	w, err := newDW(cfg, ch, prop)
	if err != nil {
		t.Fatalf("HARNESS: %v", err)
	}
	w.ops = ops
	w.S.Note(hx.Fingerprint(cfg, ops))
	if cfg.Locale != "" {
		w.charset = charsetOfLocale(cfg.Locale)
		w.T = vtFor(w)
		w.T.Corrupt(3)
	}
	s := w.S
	s.Spawn("app", w.appActor)
	s.Spawn("poller", func() {
		simrt.Wait("wait-init", func() bool { return w.inited })
		if w.initErr != nil {
			return
		}
		for w.Scr.PollEvent() != nil {
		}
	})
	st := s.Run()
	if w.initErr != nil {
		t.Fatalf("HARNESS: Init: %v", w.initErr)
	}
	app := s.Find("app")
	if st == simrt.Budget {
		hx.St.Probe("budget", 1)
	} else if !app.Done() && app.Panic == nil {
		w.fail(prop+"/stall", "the application is stuck in a Screen call: %v", s.Blocked())
	}
	if w.racing && w.Fail == nil && app.Done() {
		// after racing resizes: repaint everything, then the display must be right
		w.finalRepaint()
	}
	for _, pn := range w.Panics() {
		w.fail(prop+"/panic", "panic: %s", pn)
	}
	hx.St.Record(s, w.Tty.Faults.Map(), func() interface{} { return w.sample() })
	hx.St.Probes["shows_stamp_checked"] += w.showsChecked
	for k, v := range w.T.Unmodelled {
		hx.St.Probes["unmodelled:"+k] += v
	}
	fail := w.Fail
	trace, blocked, sig := s.Trace, s.Blocked(), s.Hash()
	if err := w.Close(); err != nil {
		t.Fatalf("HARNESS: %v", err)
	}
	if fail != nil {
		tagProp := strings.SplitN(fail.Tag, "/", 2)[0]
		if tagProp == prop {
			var opsS []string
			for _, o := range ops {
				opsS = append(opsS, o.String())
			}
			hx.WriteTrace(prop, fail, map[string]interface{}{"config": cfg.String(), "ops": opsS}, trace, blocked, sig)
			t.Fatalf("VIOLATION %s: [%s] %s", fail.Tag, cfg.Term, fail.Msg)
		}
		hx.St.Probe("other_property_failure:"+fail.Tag, 1)
	}
}

// finalRepaint: Sync after the system has settled, with every cell set
// again by the application, must leave the display right.
func (w *dw) finalRepaint() {
	s := w.S
	fin := s.Spawn("app-final", func() {
		w.Tty.WinSizeFail = false
		w.Tty.FailWrites, w.Tty.ShortWrite = 0, 0
		cw, chh := w.Scr.Size()
		tw, th := w.Tty.W, w.Tty.H
		if cw != tw || chh != th {
			// the library has not seen the last size yet: Sync picks it up
		}
		def := w.M.Def
		w.M = lm.New(tw, th)
		w.M.Def = def
		w.Scr.LockRegion(0, 0, 1000, 1000, false)
		w.Scr.Fill('.', tcell.StyleDefault)
		w.Scr.HideCursor()
		w.block++
		w.Scr.Sync()
		// Fill before the library knew the size only covered the old
		// buffer: fill again now that Sync has resized it.
		w.Scr.LockRegion(0, 0, 1000, 1000, false)
		w.Scr.Fill('.', tcell.StyleDefault)
		w.M.Fill('.', lm.Style{})
		w.block++
		w.Scr.Sync()
		w.racing = false
		w.corrupted = false
		w.lost, w.writeFault = false, false
		w.dirtyHist = true
		w.afterShow("Sync")
	})
	s.Run()
	if !fin.Done() && fin.Panic == nil && w.Fail == nil {
		w.fail(w.prop+"/stall", "final Sync never returns: %v", s.Blocked())
	}
}

func TestC01(t *testing.T) {
	rapid.Check(t, func(rt *rapid.T) {
		if rapid.IntRange(0, 4).Draw(rt, "c01part") == 0 {
			runC01painters(rt)
		} else {
			runDraw(rt, "C01")
		}
	})
}
func TestC13(t *testing.T) {
	rapid.Check(t, func(rt *rapid.T) {
		switch rapid.IntRange(0, 7).Draw(rt, "c13part") {
		case 0, 1:
			runC13locker(rt)
		case 2:
			runC13suspender(rt)
		default:
			runDraw(rt, "C13")
		}
	})
}

var _ = sort.Strings
var _ = terminfo.ModifiersXTerm
