package draw

import (
	"fmt"
	"strings"
	"testing"
	"unicode"

	"github.com/gdamore/tcell/v2"
	"pgregory.net/rapid"
	"verif.local/hx"
	"verif.local/lm"
	"verif.local/simrt"
)

// C09: the output stream is well-formed, and no rune supplied as primary
// cell content reaches the terminal as a control byte or escape introducer.
//
// The tokenizer invariant runs inside every draw run (TestC01, TestC13,
// TestC17 count its failures as notes; here they are verdicts).  The code
// point sweep is a pure clause, enumerated.

// mustBlank says the statement requires a blank for this primary rune.
func mustBlank(r rune) (bool, string) {
	switch {
	case r < 0 || r > 0x10ffff:
		return true, "out of range"
	case r < 0x20:
		return true, "C0 control"
	case r == 0x7f:
		return true, "DEL"
	case r >= 0x80 && r <= 0x9f:
		return true, "C1 control"
	case r >= 0xd800 && r <= 0xdfff:
		return true, "surrogate"
	case unicode.Is(unicode.Bidi_Control, r):
		return true, "bidi control"
	case unicode.Is(unicode.Cf, r):
		switch {
		case r >= 0x600 && r <= 0x605, r == 0x6dd, r == 0x70f, r == 0x8e2, r == 0x110bd, r == 0x110cd, r == 0x890, r == 0x891:
			return false, "" // prepended concatenation marks are visible glyphs
		}
		return true, "format character"
	case lm.Width(r) == 0 && !unicode.Is(unicode.Mn, r) && !unicode.Is(unicode.Me, r) && !unicode.Is(unicode.Mc, r):
		return true, "zero-width"
	}
	return false, ""
}

type sweepCfg struct {
	Term   string
	Locale string
}

// sweep draws every code point of [from,to) (plus a few out-of-range
// values) as primary content, in every column position.
func sweep(cfg sweepCfg, points []rune, shift int) (*hx.Failure, int, error) {
	hc := hx.Config{Term: cfg.Term, W: 40, H: 12, GapScale: 1, AltScreen: true, Locale: cfg.Locale}
	w, err := newDW(hc, &simrt.Chooser{}, "C09")
	if err != nil {
		return nil, 0, err
	}
	w.charset = charsetOfLocale(cfg.Locale)
	if cfg.Locale == "" {
		w.charset = nil
	}
	if w.charset != nil {
		w.T = vtFor(w)
	}
	for k, v := range tcell.RuneFallbacks {
		w.fallbacks[k] = v
	}
	cells := hc.W * hc.H
	shown := 0
	w.S.Spawn("app", func() {
		if err := w.Scr.Init(); err != nil {
			w.initErr = err
			return
		}
		w.T.RecordPayload(true)
		for base := 0; base < len(points); base += cells - shift {
			// position i of the screen gets point base+i-shift: over the
			// passes (shift 0,1,2) every point lands in different columns
			for i := 0; i < cells; i++ {
				r := rune(' ')
				if j := base + i - shift; j >= 0 && j < len(points) && i >= shift {
					r = points[j]
				}
				x, y := i%hc.W, i/hc.W
				w.Scr.SetContent(x, y, r, nil, tcell.StyleDefault)
				w.M.SetContent(x, y, r, nil, lm.Style{})
			}
			w.block++
			w.T.RecordPayload(true)
			w.Scr.Show()
			shown++
			if w.checkSweepShow() {
				return
			}
		}
	})
	w.S.Spawn("poller", func() {
		for w.initErr == nil && w.Scr.PollEvent() != nil {
		}
	})
	w.S.MaxSteps = 50000000
	st := w.S.Run()
	if w.initErr != nil {
		w.Close()
		return nil, 0, w.initErr
	}
	if app := w.S.Find("app"); st != simrt.Budget && !app.Done() && app.Panic == nil {
		w.fail("C09/syntax", "stuck: %v", w.S.Blocked())
	}
	for _, pn := range w.Panics() {
		w.fail("C09/control-in-cell", "panic: %s", pn)
	}
	hx.St.Record(w.S, map[string]int{}, nil)
	f := w.Fail
	return f, shown, w.Close()
}

// checkSweepShow verifies one Show of the sweep; true = stop.
func (w *dw) checkSweepShow() bool {
	t := w.T
	if len(t.Errors) > 0 {
		w.fail("C09/control-in-cell", "the terminal rejected the output of Show #%d: %s; first cells: %s", w.block, strings.Join(t.Errors, "; "), w.firstCells())
		return true
	}
	if !t.InGround() {
		w.fail("C09/syntax", "Show #%d ended inside an unterminated sequence", w.block)
		return true
	}
	if t.Bells != 0 {
		w.fail("C09/control-in-cell", "a BEL reached the terminal during Show #%d; first cells: %s", w.block, w.firstCells())
		return true
	}
	// (on the ansi family the alternate character set is the IBM-PC font,
	// selected with SGR 11: in it the bytes below 0x20 are glyphs too, and
	// the description's acsc string names some of them - the arrows at
	// 0x10, 0x11, 0x18, 0x19, the diamond at 0x04.  The reference terminal
	// counts such a byte as printed only while that font is selected.)
	pcGlyph := map[byte]bool{}
	if t.PCAlt {
		for i := 0; i+1 < len(w.Ti.AltChars); i += 2 {
			pcGlyph[w.Ti.AltChars[i+1]] = true
		}
	}
	for _, b := range t.PrintBytes {
		if (b < 0x20 || b == 0x7f) && !pcGlyph[b] {
			w.fail("C09/control-in-cell", "control byte 0x%02x inside the cell payload of Show #%d", b, w.block)
			return true
		}
	}
	m := w.M
	for y := 0; y < m.H; y++ {
		row := m.Row(y)
		for x := 0; x < m.W; x++ {
			g := row[x]
			if g.Hidden {
				continue
			}
			c := t.At(x, y)
			orig := m.At(x, y).R
			if blank, why := mustBlank(orig); blank {
				if !(c.R == ' ' && c.Width == 1 && len(c.Comb) == 0) {
					if g.AltInvalid && c.R == 0xfffd {
						continue
					}
					w.fail("C09/not-blank", "cell (%d,%d) holds U+%04X (%s): the terminal shows %q (% x), not a blank", x, y, uint32(orig), why, c.Text(), []rune(c.Text()))
					return true
				}
				continue
			}
			if w.charset != nil {
				if g.Width == 2 && !encodable(w.charset, g.R) {
					continue // "? " is C17's business
				}
				if c.Width != g.Width {
					w.fail("C09/width", "cell (%d,%d) holds U+%04X: the terminal glyph %q occupies %d columns, the cell %d", x, y, orig, c.Text(), c.Width, g.Width)
					return true
				}
				continue
			}
			if msg := w.glyphOK(x, y, g); msg != "" {
				tag := "C09/width"
				if !strings.Contains(msg, "occupies") {
					tag = "C09/control-in-cell"
				}
				w.fail(tag, "cell (%d,%d) holds U+%04X: %s", x, y, orig, msg)
				return true
			}
		}
	}
	return false
}

// fillSweep supplies each rune through Screen.Fill and expects blanks.
func fillSweep(cfg sweepCfg, runes []rune) (*hx.Failure, error) {
	hc := hx.Config{Term: cfg.Term, W: 4, H: 2, GapScale: 1, AltScreen: true, Locale: cfg.Locale}
	w, err := newDW(hc, &simrt.Chooser{}, "C09")
	if err != nil {
		return nil, err
	}
	w.charset = charsetOfLocale(cfg.Locale)
	if cfg.Locale == "" {
		w.charset = nil
	}
	if w.charset != nil {
		w.T = vtFor(w)
	}
	w.S.Spawn("app", func() {
		if err := w.Scr.Init(); err != nil {
			w.initErr = err
			return
		}
		for _, r := range runes {
			w.Scr.Fill(r, tcell.StyleDefault)
			w.M.Fill(r, lm.Style{})
			w.block++
			w.T.RecordPayload(true)
			w.Scr.Show()
			if w.checkSweepShow() {
				w.Fail.Msg = "(content supplied through Fill) " + w.Fail.Msg
				return
			}
			w.Scr.Fill('x', tcell.StyleDefault)
			w.M.Fill('x', lm.Style{})
		}
	})
	w.S.Spawn("poller", func() {
		for w.initErr == nil && w.Scr.PollEvent() != nil {
		}
	})
	w.S.MaxSteps = 50000000
	w.S.Run()
	if w.initErr != nil {
		w.Close()
		return nil, w.initErr
	}
	for _, pn := range w.Panics() {
		w.fail("C09/control-in-cell", "panic: %s", pn)
	}
	f := w.Fail
	return f, w.Close()
}

func (w *dw) firstCells() string {
	var s []string
	for i := 0; i < 6 && i < len(w.M.Cells); i++ {
		s = append(s, fmt.Sprintf("U+%04X", uint32(w.M.Cells[i].R)))
	}
	return strings.Join(s, " ")
}

func sweepPoints(thorough bool, seed uint64) []rune {
	var pts []rune
	add := func(lo, hi rune) {
		for r := lo; r <= hi; r++ {
			pts = append(pts, r)
		}
	}
	if thorough {
		add(0, 0x10ffff)
	} else {
		add(0, 0x2ff)
		add(0x600, 0x61f)
		add(0x1800, 0x180f)
		add(0x2000, 0x206f)
		add(0xd7f0, 0xe010)
		add(0xfe00, 0xfe0f)
		add(0xfeff, 0xfeff)
		add(0xfff0, 0x1000f)
		add(0x1d170, 0x1d17f)
		add(0xe0000, 0xe007f)
		add(0x10fff0, 0x10ffff)
		rng := hx.NewRng(seed)
		for i := 0; i < 30000; i++ {
			pts = append(pts, rune(rng.Intn(0x110000)))
		}
	}
	pts = append(pts, -1, -0x80000000, 0x110000, 0x7fffffff, 0x110001)
	return pts
}

func TestC09(t *testing.T) {
	// (ansi, pcansi, cygwin: alternate-character-set glyphs at IBM-PC code
	// points, many of them above 0x7f)
	cfgs := []sweepCfg{{"xterm-256color", ""}, {"linux", "en_US.ISO8859-1"}, {"ansi", "en_US.ISO8859-1"}}
	if hx.Thorough() {
		cfgs = []sweepCfg{{"xterm-256color", ""}, {"linux", ""}, {"vt220", ""},
			{"xterm-256color", "en_US.ISO8859-1"}, {"linux", "en_US.KOI8-R"}, {"vt220", "en_US.ISO8859-1"},
			{"ansi", "en_US.ISO8859-1"}, {"pcansi", "C"}, {"cygwin", "en_US.KOI8-R"}}
	}
	cf := hx.LoadCase()
	wi, wn := hx.Worker()
	pts := sweepPoints(hx.Thorough(), hx.Seed())
	// the sweep is cut into slices that the workers share
	const slice = 40000
	idx := 0
	for ci, c := range cfgs {
		for shift := 0; shift < 3; shift++ {
			for from := 0; from < len(pts); from += slice {
				idx++
				if cf != nil {
					if cf.Case["kind"] == "fill" || int(cf.Case["cfg"].(float64)) != ci || int(cf.Case["shift"].(float64)) != shift || int(cf.Case["from"].(float64)) != from {
						continue
					}
				} else if idx%wn != wi {
					continue
				}
				if hx.PastDeadline() {
					hx.St.Notes = append(hx.St.Notes, "deadline reached before the sweep finished")
					break
				}
				to := from + slice
				if to > len(pts) {
					to = len(pts)
				}
				hx.Arm("C09 sweep")
				hx.WatchdogLimit = 300e9
				f, shows, err := sweep(c, pts[from:to], shift)
				hx.Disarm()
				if err != nil {
					t.Fatalf("HARNESS: %v", err)
				}
				hx.St.Enumerated["C09 code points drawn as primary content (x column shifts)"] += to - from
				hx.St.Enumerated["C09 sweep Shows"] += shows
				if f != nil {
					t.Log(hx.ReportCase("C09", "TestC09", f.Tag, fmt.Sprintf("[%s %s shift %d] %s", c.Term, c.Locale, shift, f.Msg),
						map[string]interface{}{"cfg": ci, "shift": shift, "from": from}))
					t.FailNow()
				}
			}
		}
	}
	// Fill also supplies primary content: every must-blank class through Fill
	if cf == nil || cf.Case["kind"] == "fill" {
		var fills []rune
		k := 0
		for _, r := range pts {
			if b, _ := mustBlank(r); b {
				// (quick tier: a seventh of them, which seventh depends on the seed)
				k++
				if r < 0x100 || r > 0x10ffff || r < 0 || k%7 == int(hx.Seed()%7) || hx.Thorough() {
					fills = append(fills, r)
				}
			}
		}
		for ci, c := range cfgs {
			if cf == nil && ci%wn != wi%len(cfgs) && wn > 1 {
				continue
			}
			if cf != nil && int(cf.Case["cfg"].(float64)) != ci {
				continue
			}
			hx.Arm("C09 fill")
			f, err := fillSweep(c, fills)
			hx.Disarm()
			if err != nil {
				t.Fatalf("HARNESS: %v", err)
			}
			hx.St.Enumerated["C09 must-blank code points supplied through Fill"] += len(fills)
			if f != nil {
				t.Log(hx.ReportCase("C09", "TestC09", f.Tag, fmt.Sprintf("[%s %s] %s", c.Term, c.Locale, f.Msg), map[string]interface{}{"kind": "fill", "cfg": ci, "shift": -1, "from": -1}))
				t.FailNow()
			}
		}
	}
	if cf != nil {
		return
	}
	// simulated part: the tokenizer as an invariant over draw histories
	rapid.Check(t, func(rt *rapid.T) { runDraw(rt, "C09") })
}
