package draw

import (
	"fmt"
	"os"
	"strings"
	"testing"

	"github.com/gdamore/tcell/v2"
	"golang.org/x/text/encoding"
	"pgregory.net/rapid"
	"verif.local/hx"
	"verif.local/lm"
	"verif.local/simrt"
)

// C18: SimulationScreen is a faithful test double.
//
// Simulated clause: an injector goroutine (InjectKey / InjectMouse /
// InjectKeyBytes / SetSize+draw+Show) and a consumer goroutine (PollEvent,
// Size, GetContents) over the ten-slot queue, under the seeded scheduler;
// deadlock verdicts are exact.  Fidelity clause (enumerated through the same
// seeded generator as C01): draw histories applied to the simulator, with
// GetContents compared against the shadow model.

type inj struct {
	Kind  string
	Key   tcell.Key
	R     rune
	Mod   tcell.ModMask
	X, Y  int
	Btn   tcell.ButtonMask
	Text  []rune
	Cuts  []int
	W, H  int
	Pause int
}

type cons struct {
	N     int
	Pause int
	Peek  string // "", "size", "contents"
}

func simCharsets() []string {
	out := []string{"UTF-8", "UTF-8", "US-ASCII"}
	for _, l := range legacyLocales() {
		if i := strings.IndexByte(l, '.'); i >= 0 && !strings.HasPrefix(strings.ToLower(l[i+1:]), "utf") {
			out = append(out, l[i+1:])
		}
	}
	return out
}

func simEncoding(cs string) encoding.Encoding {
	if strings.EqualFold(cs, "UTF-8") {
		return nil
	}
	return tcell.GetEncoding(cs)
}

func encodeRunes(cs encoding.Encoding, text []rune) []byte {
	if cs == nil {
		return []byte(string(text))
	}
	var out []byte
	e := cs.NewEncoder()
	for _, r := range text {
		e.Reset()
		b, err := e.Bytes([]byte(string(r)))
		if err != nil {
			panic(err)
		}
		out = append(out, b...)
	}
	return out
}

func runC18events(t *rapid.T) {
	charset := rapid.SampledFrom(simCharsets()).Draw(t, "charset")
	cs := simEncoding(charset)
	members := membersOf("x." + charset)
	if cs == nil {
		members = membersOf("en_US.UTF-8")
	}
	n := rapid.IntRange(1, 25).Draw(t, "ninj")
	var script []inj
	for i := 0; i < n; i++ {
		switch rapid.IntRange(0, 9).Draw(t, "inj") {
		case 0, 1, 2:
			script = append(script, inj{Kind: "key", Key: tcell.KeyRune, R: rune('a' + i%26), Mod: tcell.ModMask(rapid.IntRange(0, 15).Draw(t, "mod"))})
		case 3:
			script = append(script, inj{Kind: "key", Key: rapid.SampledFrom([]tcell.Key{tcell.KeyUp, tcell.KeyF5, tcell.KeyEnter, tcell.KeyCtrlC, tcell.KeyEsc}).Draw(t, "key")})
		case 4:
			script = append(script, inj{Kind: "mouse", X: rapid.IntRange(0, 90).Draw(t, "mx"), Y: i, Btn: tcell.ButtonMask(rapid.SampledFrom([]int{0, 1, 2, 4, 256, 512}).Draw(t, "btn")), Mod: tcell.ModMask(rapid.IntRange(0, 7).Draw(t, "mmod"))})
		case 5, 6, 7:
			k := rapid.IntRange(1, 8).Draw(t, "tlen")
			o := inj{Kind: "bytes"}
			for j := 0; j < k; j++ {
				o.Text = append(o.Text, members[rapid.IntRange(0, len(members)-1).Draw(t, "tr")])
			}
			nc := rapid.IntRange(0, 3).Draw(t, "ncut")
			for j := 0; j < nc; j++ {
				o.Cuts = append(o.Cuts, rapid.IntRange(1, 40).Draw(t, "cut"))
			}
			script = append(script, o)
		case 8:
			script = append(script, inj{Kind: "setsize", W: rapid.IntRange(1, 12).Draw(t, "w"), H: rapid.IntRange(1, 6).Draw(t, "h")})
		default:
			script = append(script, inj{Kind: "pause", Pause: rapid.SampledFrom([]int{1, 10}).Draw(t, "ms")})
		}
	}
	nc := rapid.IntRange(0, 6).Draw(t, "ncons")
	var cscript []cons
	for i := 0; i < nc; i++ {
		cscript = append(cscript, cons{N: rapid.IntRange(0, 12).Draw(t, "cn"), Pause: rapid.SampledFrom([]int{0, 0, 5, 50}).Draw(t, "cp"),
			Peek: rapid.SampledFrom([]string{"", "", "size", "contents"}).Draw(t, "peek")})
	}
	ch := hx.DrawChooser(t, 120)
	hx.Arm("C18")
	defer hx.Disarm()
	os.Setenv("LC_ALL", "en_US.UTF-8")
	s := simrt.New(ch)
	s.GapScale = rapid.SampledFrom([]int{1, 3, 10}).Draw(t, "gap")
	s.TraceOn = hx.Replaying()
	ss := tcell.NewSimulationScreen(charset)
	s.Note(hx.Fingerprint(charset, script, cscript))
	var fail *hx.Failure
	mk := func(tag, format string, args ...interface{}) {
		if fail == nil {
			fail = &hx.Failure{Tag: tag, Msg: fmt.Sprintf("[charset %s] ", charset) + fmt.Sprintf(format, args...)}
		}
	}
	if err := ss.Init(); err != nil {
		s.Shutdown()
		t.Fatalf("HARNESS: simscreen Init(%s): %v", charset, err)
	}
	var want, got []string
	var wantResize []string
	desc := func(ev tcell.Event) string {
		switch e := ev.(type) {
		case *tcell.EventKey:
			return fmt.Sprintf("key:%d:%d:%d", e.Key(), e.Rune(), e.Modifiers())
		case *tcell.EventMouse:
			x, y := e.Position()
			return fmt.Sprintf("mouse:%d,%d:%d:%d", x, y, e.Buttons(), e.Modifiers())
		case *tcell.EventResize:
			w, h := e.Size()
			return fmt.Sprintf("resize:%dx%d", w, h)
		}
		return fmt.Sprintf("%T", ev)
	}
	var gotResize []string
	take := func(ev tcell.Event) {
		d := desc(ev)
		if strings.HasPrefix(d, "resize:") {
			gotResize = append(gotResize, d)
			return
		}
		got = append(got, d)
	}
	faults := map[string]int{}
	injDone := false
	s.Spawn("injector", func() {
		for _, o := range script {
			switch o.Kind {
			case "key":
				// the constructor normalises control runes; mirror the documented result
				ev := tcell.NewEventKey(o.Key, o.R, o.Mod)
				want = append(want, desc(ev))
				ss.InjectKey(o.Key, o.R, o.Mod)
			case "mouse":
				want = append(want, fmt.Sprintf("mouse:%d,%d:%d:%d", o.X, o.Y, o.Btn, o.Mod))
				ss.InjectMouse(o.X, o.Y, o.Btn, o.Mod)
			case "bytes":
				b := encodeRunes(cs, o.Text)
				for _, r := range o.Text {
					want = append(want, fmt.Sprintf("key:%d:%d:0", tcell.KeyRune, r))
				}
				// cut only between characters: InjectKeyBytes documents whole
				// characters per call ("any valid text in the charset")
				bounds := []int{0}
				off := 0
				for _, r := range o.Text {
					off += len(encodeRunes(cs, []rune{r}))
					bounds = append(bounds, off)
				}
				cutAt := map[int]bool{}
				for _, c := range o.Cuts {
					cutAt[bounds[c%len(bounds)]] = true
				}
				start := 0
				for i := 1; i <= len(b); i++ {
					if i == len(b) || cutAt[i] {
						if i > start {
							if !ss.InjectKeyBytes(b[start:i]) {
								mk("C18/bytes", "InjectKeyBytes(% x) (text %q) reported failure", b[start:i], string(o.Text))
							}
							if i < len(b) {
								faults["inject_split"]++
							}
						}
						start = i
					}
				}
			case "setsize":
				ow, oh := ss.Size()
				ss.SetSize(o.W, o.H)
				ss.SetContent(0, 0, 'x', nil, tcell.StyleDefault)
				ss.Show()
				if ow != o.W || oh != o.H {
					wantResize = append(wantResize, fmt.Sprintf("resize:%dx%d", o.W, o.H))
				}
				faults["resize"]++
			case "pause":
				simrt.Sleep("inj.pause", hx.Ms(o.Pause))
			}
		}
		injDone = true
	})
	poll := func() bool {
		ev := ss.PollEvent()
		if ev == nil {
			return false
		}
		take(ev)
		return true
	}
	s.Spawn("consumer", func() {
		for _, c := range cscript {
			for i := 0; i < c.N; i++ {
				if !poll() {
					return
				}
			}
			switch c.Peek {
			case "size":
				ss.Size()
			case "contents":
				ss.GetContents()
			}
			if c.Pause > 0 {
				faults["stall_poller"]++
				simrt.Sleep("cons.pause", hx.Ms(c.Pause))
			}
		}
	})
	st := s.Run()
	// exact deadlock verdict between an active consumer and the injector
	if st == simrt.Quiescent && !injDone {
		if c := s.Find("consumer"); c != nil && !c.Done() {
			for _, b := range s.Blocked() {
				if strings.HasPrefix(b, "consumer@lock") {
					mk("C18/deadlock", "injector and consumer wedge each other: %v", s.Blocked())
				}
			}
		}
	}
	if fail == nil {
		// back-pressure: a drainer lets the injector finish
		s.Spawn("drainer", func() {
			for poll() {
			}
		})
		s.Run()
		if !injDone {
			mk("C18/deadlock", "with a consumer polling, the injector still never finishes: %v", s.Blocked())
		}
	}
	if fail == nil {
		if strings.Join(got, " ") != strings.Join(want, " ") {
			i := 0
			for i < len(got) && i < len(want) && got[i] == want[i] {
				i++
			}
			g, w := "<none>", "<none>"
			if i < len(got) {
				g = got[i]
			}
			if i < len(want) {
				w = want[i]
			}
			tag := "C18/order"
			for _, o := range script {
				if o.Kind == "bytes" && strings.HasPrefix(w, "key:256:") {
					tag = "C18/bytes"
				}
			}
			mk(tag, "events differ at #%d: injected %s, polled %s (injected %d, polled %d)", i, w, g, len(want), len(got))
		}
		for _, wr := range wantResize {
			found := false
			for _, gr := range gotResize {
				if gr == wr {
					found = true
				}
			}
			if !found {
				mk("C18/resize", "SetSize then Show produced no resize event %s (resize events seen: %v)", wr, gotResize)
			}
		}
	}
	for _, g := range s.Goroutines() {
		if g.Panic != nil {
			mk("C18/order", "panic in %s: %v\n%s", g.Name, g.Panic, g.PanicStack)
		}
	}
	hx.St.Record(s, faults, func() interface{} {
		return map[string]interface{}{"charset": charset, "injections": len(script), "consumer_steps": len(cscript), "events": len(got)}
	})
	tr, sig := s.Trace, s.Hash()
	fin := s.Spawn("fini", func() { ss.Fini() })
	s.Run()
	_ = fin
	if err := s.Shutdown(); err != nil {
		t.Fatalf("HARNESS: %v", err)
	}
	if fail != nil {
		hx.WriteTrace("C18", fail, map[string]interface{}{"charset": charset, "script": fmt.Sprintf("%+v", script), "consumer": fmt.Sprintf("%+v", cscript)}, tr, nil, sig)
		t.Fatalf("VIOLATION %s: %s", fail.Tag, fail.Msg)
	}
}

// runC18draw applies a C01 draw history to a SimulationScreen.
func runC18draw(t *rapid.T) {
	charset := rapid.SampledFrom(simCharsets()).Draw(t, "charset")
	cs := simEncoding(charset)
	ops := drawOps(t, 12, 6, false)
	// fallback registrations on this screen (they are this screen's: the
	// package-level table every screen starts from must not change)
	for i, nfb := 0, rapid.IntRange(0, 2).Draw(t, "nfallbackops"); i < nfb; i++ {
		o := op{Kind: rapid.SampledFrom([]string{"unregfb", "unregfb", "regfb"}).Draw(t, "fbop"),
			R: rapid.SampledFrom([]rune{tcell.RuneHLine, tcell.RuneVLine, tcell.RuneULCorner, tcell.RuneBullet, tcell.RuneDegree, tcell.RuneBlock, 0x4e00}).Draw(t, "fbrune")}
		at := rapid.IntRange(0, len(ops)).Draw(t, "fbat")
		ops = append(ops[:at], append([]op{o}, ops[at:]...)...)
	}
	w0, h0 := rapid.IntRange(1, 12).Draw(t, "w"), rapid.IntRange(1, 6).Draw(t, "h")
	// further SetSize calls after the first: to drawn sizes, or (Target) so
	// that a wide rune on the screen ends up in the last column, and back
	type sizeStep struct {
		W, H   int
		Target bool
	}
	var more []sizeStep
	for i, n := 0, rapid.IntRange(0, 3).Draw(t, "nmoresizes"); i < n; i++ {
		more = append(more, sizeStep{rapid.IntRange(1, 12).Draw(t, "mw"), rapid.IntRange(1, 6).Draw(t, "mh"), rapid.Bool().Draw(t, "mtarget")})
	}
	hx.Arm("C18")
	defer hx.Disarm()
	os.Setenv("LC_ALL", "en_US.UTF-8")
	s := simrt.New(&simrt.Chooser{})
	ss := tcell.NewSimulationScreen(charset)
	s.Note(hx.Fingerprint(charset, w0, h0, ops))
	var fail *hx.Failure
	mk := func(tag, format string, args ...interface{}) {
		if fail == nil {
			fail = &hx.Failure{Tag: tag, Msg: fmt.Sprintf("[charset %s] ", charset) + fmt.Sprintf(format, args...)}
		}
	}
	if err := ss.Init(); err != nil {
		s.Shutdown()
		t.Fatalf("HARNESS: %v", err)
	}
	for k := range tcell.RuneFallbacks {
		delete(tcell.RuneFallbacks, k)
	}
	for k, v := range pristineFallbacks {
		tcell.RuneFallbacks[k] = v
	}
	fallbacks := map[rune]string{}
	for k, v := range pristineFallbacks {
		fallbacks[k] = v
	}
	m := lm.New(80, 25)
	compare := func(when string) {
		cells, cw, chh := ss.GetContents()
		if cw != m.W || chh != m.H {
			mk("C18/cell", "%s: GetContents reports %dx%d, the screen is %dx%d", when, cw, chh, m.W, m.H)
			return
		}
		for y := 0; y < m.H && fail == nil; y++ {
			row := m.Row(y)
			for x, g := range row {
				if g.Skip || g.Hidden {
					continue
				}
				c := cells[y*cw+x]
				wantR := append([]rune{g.R}, g.Comb...)
				if string(c.Runes) != string(wantR) && !(g.AltInvalid && len(c.Runes) > 0 && c.Runes[0] == 0xfffd) {
					mk("C18/cell", "%s: cell (%d,%d) Runes %q, expected %q", when, x, y, string(c.Runes), string(wantR))
					return
				}
				okStyle := c.Style == g.St.Build()
				for _, alt := range g.AltSt {
					if c.Style == alt.Build() {
						okStyle = true
					}
				}
				if !okStyle {
					mk("C18/cell", "%s: cell (%d,%d) Style %+v, expected %+v", when, x, y, c.Style, g.St)
					return
				}
				// Bytes: encoding in the simulation's charset under the real screen's fallback rules
				var wantB []byte
				for i, r := range wantR {
					switch {
					case encodable(cs, r) || (cs == nil && r <= 0x10ffff && r >= 0 && !(r >= 0xd800 && r < 0xe000)):
						wantB = append(wantB, encodeRunes(cs, []rune{r})...)
					case i > 0:
						// combining characters that cannot be encoded are elided
					default:
						if fb, ok := fallbacks[r]; ok {
							wantB = append(wantB, fb...)
						} else {
							wantB = append(wantB, '?')
						}
					}
				}
				if string(c.Bytes) != string(wantB) && !(g.Width == 2 && string(c.Bytes) == string(wantB)+" ") && !g.AltInvalid {
					mk("C18/bytes", "%s: cell (%d,%d) holding %q has Bytes % x, expected % x", when, x, y, string(wantR), c.Bytes, wantB)
					return
				}
			}
		}
		cx, cy, vis := ss.GetCursor()
		wantVis := m.In(m.CurX, m.CurY)
		if vis != wantVis || (wantVis && (cx != m.CurX || cy != m.CurY)) {
			mk("C18/cell", "%s: GetCursor = (%d,%d,%v), ShowCursor asked for (%d,%d)", when, cx, cy, vis, m.CurX, m.CurY)
		}
	}
	var resizes []string
	s.Spawn("poller", func() {
		for {
			ev := ss.PollEvent()
			if ev == nil {
				return
			}
			if e, ok := ev.(*tcell.EventResize); ok {
				w, h := e.Size()
				resizes = append(resizes, fmt.Sprintf("%dx%d", w, h))
			}
		}
	})
	s.Spawn("app", func() {
		ss.SetSize(w0, h0)
		m.Resize(w0, h0)
		ss.Show()
		m.Painted(true)
		for _, o := range ops {
			if fail != nil {
				return
			}
			switch o.Kind {
			case "set":
				ss.SetContent(o.X, o.Y, o.R, o.Comb, o.St.Build())
				m.SetContent(o.X, o.Y, o.R, o.Comb, o.St)
			case "fill":
				ss.Fill(o.R, o.St.Build())
				m.Fill(o.R, o.St)
			case "regfb", "unregfb":
				if o.Kind == "regfb" {
					ss.RegisterRuneFallback(o.R, "+")
					fallbacks[o.R] = "+"
				} else {
					ss.UnregisterRuneFallback(o.R)
					delete(fallbacks, o.R)
				}
				// takes effect at the next draw: have the cells that hold the rune drawn again
				for i := range m.Cells {
					if c := &m.Cells[i]; c.R == o.R && !c.Locked {
						x, y := i%m.W, i/m.W
						r, comb, st := c.R, append([]rune(nil), c.Comb...), c.St
						ss.SetContent(x, y, ' ', nil, st.Build())
						m.SetContent(x, y, ' ', nil, st)
						ss.SetContent(x, y, r, comb, st.Build())
						m.SetContent(x, y, r, comb, st)
					}
				}
			case "clear":
				ss.Clear()
				m.Fill(' ', lm.Style{})
			case "setstyle":
				ss.SetStyle(o.St.Build())
				m.SetStyle(o.St)
			case "cursor":
				ss.ShowCursor(o.X, o.Y)
				m.CurX, m.CurY = o.X, o.Y
			case "lock":
				ss.LockRegion(o.X, o.Y, o.W, o.H, o.Lock)
				m.Lock(o.X, o.Y, o.W, o.H, o.Lock)
			case "show":
				ss.Show()
				m.Painted(false)
				compare("after Show")
			case "sync":
				ss.Sync()
				m.Painted(true)
				compare("after Sync")
			}
		}
		// SetSize preserves the overlap and yields one resize event
		nw, nh := m.W%12+1, m.H%6+1
		before, _, _ := ss.GetContents()
		keep := append([]tcell.SimCell(nil), before...)
		ow, oh := m.W, m.H
		simrt.Sleep("settle0", hx.Ms(1)) // let the poller catch up with earlier events
		n0 := len(resizes)
		ss.SetSize(nw, nh)
		after, aw, ah := ss.GetContents()
		if aw != nw || ah != nh {
			mk("C18/resize", "after SetSize(%d,%d) GetContents reports %dx%d", nw, nh, aw, ah)
		}
		for y := 0; y < nh && y < oh && fail == nil; y++ {
			for x := 0; x < nw && x < ow; x++ {
				a, b := after[y*aw+x], keep[y*ow+x]
				if string(a.Runes) != string(b.Runes) || a.Style != b.Style || string(a.Bytes) != string(b.Bytes) {
					mk("C18/resize", "SetSize(%d,%d) from %dx%d did not preserve cell (%d,%d): %q became %q", nw, nh, ow, oh, x, y, string(b.Runes), string(a.Runes))
					break
				}
			}
		}
		m.Resize(nw, nh)
		ss.Show()
		m.Painted(false)
		// the rendering rule holds at the new size too (a wide rune that is
		// now in the last column is a blank; one that no longer is, is shown)
		compare("after SetSize and Show")
		simrt.Sleep("settle", hx.Ms(1))
		if fail == nil {
			if len(resizes) != n0+1 || resizes[len(resizes)-1] != fmt.Sprintf("%dx%d", nw, nh) {
				mk("C18/resize", "SetSize(%d,%d) + Show produced resize events %v, expected exactly one %dx%d", nw, nh, resizes[n0:], nw, nh)
			}
		}
		// more size changes: the logical contents survive in the overlap
		// (a wide rune cut off by a narrower window is still there when the
		// window grows again), and every Show renders them by the same rule
		for _, st := range more {
			if fail != nil {
				break
			}
			nw, nh := st.W, st.H
			ow := m.W
			if st.Target {
				for i := range m.Cells {
					if c := &m.Cells[i]; lm.Width(c.R) == 2 && i%m.W+1 < m.W {
						nw = i%m.W + 1
						if i/m.W >= nh {
							nh = i/m.W + 1
						}
						break
					}
				}
			}
			sizes := [][2]int{{nw, nh}}
			if st.Target {
				sizes = append(sizes, [2]int{ow, nh})
			}
			for _, sz := range sizes {
				ss.SetSize(sz[0], sz[1])
				m.Resize(sz[0], sz[1])
				for y := 0; y < m.H && fail == nil; y++ {
					for x := 0; x < m.W; x++ {
						c := m.At(x, y)
						if c.Unknown || c.Locked {
							continue
						}
						r, comb, _, _ := ss.GetContent(x, y)
						wr := c.R
						if wr < ' ' || lm.Width(wr) == 0 {
							continue // (stored as given or as a blank: not this check's business)
						}
						if r != wr || string(comb) != string(c.Comb) {
							mk("C18/resize", "after SetSize(%d,%d) GetContent(%d,%d) = %q+%q, the cell was given %q+%q and has been inside the window ever since", sz[0], sz[1], x, y, r, string(comb), wr, string(c.Comb))
							break
						}
					}
				}
				ss.Show()
				m.Painted(false)
				compare(fmt.Sprintf("after SetSize(%d,%d) and Show", sz[0], sz[1]))
			}
		}
		ss.Fini()
	})
	s.Run()
	for _, g := range s.Goroutines() {
		if g.Panic != nil {
			mk("C18/cell", "panic in %s: %v\n%s", g.Name, g.Panic, g.PanicStack)
		} else if !g.Done() {
			mk("C18/deadlock", "%s never finishes: %v", g.Name, s.Blocked())
		}
	}
	if d := fallbackTableDiff(); d != "" {
		mk("C18/bytes", "a fallback registration made on one simulation screen changed the package-level RuneFallbacks table, which every other screen starts from: %s", d)
	}
	hx.St.Record(s, map[string]int{}, nil)
	hx.St.Enumerated["C18 draw histories replayed on the simulator"]++
	if err := s.Shutdown(); err != nil {
		t.Fatalf("HARNESS: %v", err)
	}
	if fail != nil {
		var os []string
		for _, o := range ops {
			os = append(os, o.String())
		}
		hx.WriteTrace("C18", fail, map[string]interface{}{"charset": charset, "size": fmt.Sprintf("%dx%d", w0, h0), "ops": os}, nil, nil, 0)
		t.Fatalf("VIOLATION %s: %s", fail.Tag, fail.Msg)
	}
}

func TestC18(t *testing.T) {
	rapid.Check(t, func(rt *rapid.T) {
		if hx.PastDeadline() {
			return
		}
		if rapid.Bool().Draw(rt, "fidelity") {
			runC18draw(rt)
		} else {
			runC18events(rt)
		}
	})
}
