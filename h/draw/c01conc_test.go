package draw

import (
	"fmt"
	"strings"

	"pgregory.net/rapid"
	"verif.local/hx"
	"verif.local/lm"
	"verif.local/simrt"
)

// runC01painters is the schedule dimension of C01: two goroutines paint
// disjoint sets of cells of the same screen and call Show() whenever they
// like, and the tty hands control to the other goroutine in the middle of a
// write.  When both are done and the system is quiet, one more Show() must
// leave the display equal to the logical screen - a frame that was rendered
// earlier must never reach the terminal after a frame rendered later.
func runC01painters(t *rapid.T) {
	if hx.PastDeadline() {
		return
	}
	cfg := hx.DrawConfig(t, ecmaFamily(), 8, 3)
	cfg.W, cfg.H = rapid.IntRange(2, 8).Draw(t, "w"), rapid.IntRange(1, 3).Draw(t, "h")
	type step struct {
		Kind string // set show sync
		I    int    // index into the painter's own cells
		R    rune
		St   lm.Style
	}
	progs := make([][]step, 2)
	for g := range progs {
		n := rapid.IntRange(2, 14).Draw(t, "nsteps")
		for i := 0; i < n; i++ {
			k := rapid.SampledFrom([]string{"set", "set", "set", "show", "show", "sync"}).Draw(t, "kind")
			st := step{Kind: k}
			if k == "set" {
				st.I = rapid.IntRange(0, 63).Draw(t, "cell")
				st.R = rune(rapid.IntRange('a', 'z').Draw(t, "r"))
				if rapid.IntRange(0, 2).Draw(t, "styled") == 0 {
					st.St = drawStyle(t)
				}
			}
			progs[g] = append(progs[g], st)
		}
		progs[g] = append(progs[g], step{Kind: "show"})
	}
	ch := hx.DrawChooser(t, 200)
	hx.Arm("C01")
	defer hx.Disarm()
	w, err := newDW(cfg, ch, "C01")
	if err != nil {
		t.Fatalf("HARNESS: %v", err)
	}
	w.S.Note(hx.Fingerprint(cfg, progs))
	// painter g owns the cells whose index is congruent to g modulo 2
	own := make([][]int, 2)
	for i := 0; i < cfg.W*cfg.H; i++ {
		own[i%2] = append(own[i%2], i)
	}
	s := w.S
	ready := false
	done := make([]bool, 2)
	s.Spawn("app", func() {
		if err := w.Scr.Init(); err != nil {
			w.initErr = err
			ready = true
			return
		}
		ready = true
		for g := range progs {
			g := g
			simrt.Go(fmt.Sprintf("painter%d", g), func() {
				for _, st := range progs[g] {
					switch st.Kind {
					case "set":
						if len(own[g]) == 0 {
							continue
						}
						i := own[g][st.I%len(own[g])]
						x, y := i%cfg.W, i/cfg.W
						w.Scr.SetContent(x, y, st.R, nil, st.St.Build())
						w.M.SetContent(x, y, st.R, nil, st.St)
					case "show":
						w.Scr.Show()
					case "sync":
						w.Scr.Sync()
					}
				}
				done[g] = true
			})
		}
		simrt.Wait("painters-done", func() bool { return done[0] && done[1] })
		w.Tty.Faults.Inc("concurrent_show")
		w.block++
		w.Scr.Show()
		if len(w.T.Errors) > 0 {
			w.fail("C09/syntax", "the terminal rejected the output of two concurrent painters: %s", strings.Join(w.T.Errors, "; "))
			return
		}
		w.M.Painted(true) // (styles: every cell may have been painted under the one default style)
		if msg := w.compare("after the Show that follows two concurrent painters"); msg != "" {
			w.fail("C01/cell", "%s", msg)
		}
	})
	s.Spawn("poller", func() {
		simrt.Wait("ready", func() bool { return ready })
		for w.initErr == nil && w.Scr.PollEvent() != nil {
		}
	})
	s.Run()
	if w.initErr != nil {
		t.Fatalf("HARNESS: %v", w.initErr)
	}
	if app := s.Find("app"); !app.Done() && app.Panic == nil {
		w.fail("C01/stall", "stuck: %v", s.Blocked())
	}
	for _, pn := range w.Panics() {
		w.fail("C01/panic", "panic: %s", pn)
	}
	hx.St.Record(s, w.Tty.Faults.Map(), func() interface{} {
		return map[string]interface{}{"config": cfg.String(), "painters": 2, "steps": len(progs[0]) + len(progs[1]), "preemptions": s.Preempts}
	})
	fail := w.Fail
	tr, sig := s.Trace, s.Hash()
	if err := w.Close(); err != nil {
		t.Fatalf("HARNESS: %v", err)
	}
	if fail != nil && strings.HasPrefix(fail.Tag, "C01/") {
		hx.WriteTrace("C01", fail, map[string]interface{}{"config": cfg.String(), "painters": fmt.Sprintf("%+v", progs)}, tr, nil, sig)
		t.Fatalf("VIOLATION %s: [%s] %s", fail.Tag, cfg.Term, fail.Msg)
	}
}
