// Package wasm is the harness for C19.  The js/wasm screen (wscreen.go and
// the rest of the GOOS=js file set) is compiled natively with syscall/js
// replaced by the recording stub verif.local/sjs; the JavaScript host is a
// simulated peer that invokes whichever callbacks are registered, on fresh
// goroutines, between application steps under the seeded scheduler.  The
// compile clause (GOOS=js GOARCH=wasm go build) is run by verifctl first.
package wasm

import (
	"fmt"
	"os"
	"sort"
	"strings"
	"testing"

	"github.com/gdamore/tcell/v2"
	"pgregory.net/rapid"
	"verif.local/hx"
	"verif.local/lm"
	"verif.local/simrt"
	"verif.local/sjs"
)

func TestMain(m *testing.M) {
	code := m.Run()
	hx.St.Flush()
	os.Exit(code)
}

// ---- the page ----

type pcell struct {
	s             string
	fg, bg        int
	attrs, us, uc int
	drawn         int // index of the Show that last drew it
	set           bool
}

type page struct {
	w, h   int
	cells  []pcell
	show   int
	draws  [][2]int // cells drawn since the last "show"
	cursor [2]int
	title  string
	beeps  int
	clears int
	bad    string
	// the page's default colours (learnt from the first full repaint, before any SetStyle)
	defFg, defBg int
	haveDef      bool
}

func argInt(a interface{}) int {
	switch x := a.(type) {
	case int:
		return x
	case int32:
		return int(x)
	case int64:
		return int(x)
	}
	return -999999
}

func (p *page) apply(c sjs.Call) {
	switch c.Name {
	case "drawCell":
		if len(c.Args) != 8 {
			p.bad = fmt.Sprintf("drawCell called with %d arguments", len(c.Args))
			return
		}
		x, y := argInt(c.Args[0]), argInt(c.Args[1])
		if x < 0 || y < 0 || x >= p.w || y >= p.h {
			p.bad = fmt.Sprintf("drawCell(%d,%d) outside the %dx%d grid", x, y, p.w, p.h)
			return
		}
		for _, a := range []struct {
			i    int
			what string
		}{{3, "foreground"}, {4, "background"}, {7, "underline colour"}} {
			if v := argInt(c.Args[a.i]); (v < 0 || v > 0xffffff) && p.bad == "" {
				p.bad = fmt.Sprintf("drawCell(%d,%d): the %s %d is not a 24-bit value", x, y, a.what, v)
			}
		}
		s, _ := c.Args[2].(string)
		p.cells[y*p.w+x] = pcell{s: s, fg: argInt(c.Args[3]), bg: argInt(c.Args[4]), attrs: argInt(c.Args[5]), us: argInt(c.Args[6]), uc: argInt(c.Args[7]), drawn: p.show, set: true}
		p.draws = append(p.draws, [2]int{x, y})
	case "clearScreen":
		p.clears++
		for i := range p.cells {
			p.cells[i] = pcell{s: " ", fg: argInt(c.Args[0]), bg: argInt(c.Args[1])}
		}
	case "show":
		p.show++
	case "showCursor":
		p.cursor = [2]int{argInt(c.Args[0]), argInt(c.Args[1])}
	case "resize":
		// (webfiles/tcell.js: a resize allocates a new, blank grid - whatever
		// was on the page is gone until it is drawn again)
		w, h := argInt(c.Args[0]), argInt(c.Args[1])
		p.cells, p.w, p.h = make([]pcell, w*h), w, h
	case "setTitle":
		p.title, _ = c.Args[0].(string)
	case "beep":
		p.beeps++
	case "setCursorStyle":
	default:
		p.bad = "unknown call into JavaScript: " + c.Name
	}
}

// xterm's default palette for the sixteen basic colours
var xterm16 = [16]int{0x000000, 0xcd0000, 0x00cd00, 0xcdcd00, 0x0000ee, 0xcd00cd, 0x00cdcd, 0xe5e5e5,
	0x7f7f7f, 0xff0000, 0x00ff00, 0xffff00, 0x5c5cff, 0xff00ff, 0x00ffff, 0xffffff}

// wantColor returns the 24-bit value a colour must be drawn with (ok=false:
// the statement leaves it open, e.g. the default colour).
func wantColor(c tcell.Color) (int, bool) {
	if !c.Valid() {
		return 0, false
	}
	if c.IsRGB() {
		return int(c & 0xffffff), true
	}
	idx := int(c & 0xffffff)
	switch {
	case idx < 16:
		return xterm16[idx], true
	case idx < 256:
		r, g, b := lm.PaletteRGB(idx)
		return r<<16 | g<<8 | b, true
	}
	if h := c.Hex(); h >= 0 {
		return int(h), true
	}
	return 0, false
}

// ---- plan ----

type op struct {
	Kind string
	X, Y int
	W, H int
	R    rune
	Comb []rune
	St   lm.Style
	Lock bool
}

func drawColor(t *rapid.T, label string) tcell.Color {
	switch rapid.IntRange(0, 9).Draw(t, label) {
	case 8:
		return tcell.ColorReset
	case 9:
		// a valid palette index that no table gives an RGB value for
		return tcell.PaletteColor(rapid.IntRange(379, 2000).Draw(t, label+"big"))
	case 0:
		return tcell.ColorDefault
	case 1:
		return tcell.ColorNone
	case 2, 3:
		return tcell.PaletteColor(rapid.IntRange(0, 15).Draw(t, label+"16"))
	case 4:
		return tcell.PaletteColor(rapid.IntRange(16, 255).Draw(t, label+"256"))
	case 5:
		return tcell.ColorValid + tcell.Color(rapid.IntRange(256, 378).Draw(t, label+"named"))
	default:
		return tcell.NewRGBColor(int32(rapid.IntRange(0, 255).Draw(t, label+"r")), int32(rapid.IntRange(0, 255).Draw(t, label+"g")), 77)
	}
}

func drawStyle(t *rapid.T) lm.Style {
	if rapid.IntRange(0, 4).Draw(t, "zerostyle") == 0 {
		return lm.Style{}
	}
	s := lm.Style{Fg: drawColor(t, "fg"), Bg: drawColor(t, "bg")}
	s.Attrs = tcell.AttrMask(rapid.IntRange(0, 127).Draw(t, "attrs")) &^ tcell.AttrUnderline
	if rapid.IntRange(0, 2).Draw(t, "hasul") == 0 {
		s.Ul = tcell.UnderlineStyle(rapid.IntRange(1, 5).Draw(t, "ul"))
		s.Attrs |= tcell.AttrUnderline
		if rapid.Bool().Draw(t, "hasulc") {
			s.UlC = drawColor(t, "ulc")
			if s.UlC == tcell.ColorNone {
				s.UlC = tcell.ColorRed
			}
		}
	}
	return s
}

func drawRune(t *rapid.T) rune {
	switch rapid.IntRange(0, 7).Draw(t, "rc") {
	case 0, 1, 2, 3:
		return rune(rapid.IntRange(0x20, 0x7e).Draw(t, "ascii"))
	case 4:
		return rune(rapid.IntRange(0x4e00, 0x4e20).Draw(t, "cjk"))
	case 5:
		return rapid.SampledFrom([]rune{0, 7, 0x1b, 0x7f, 0x85, 0x200b, -1, 0x110000}).Draw(t, "odd")
	default:
		return rune(rapid.IntRange(0xa1, 0x17f).Draw(t, "latin"))
	}
}

type cb struct {
	Name string
	Args []interface{}
	Want string // expected event description ("" = must be ignored)
}

func desc(ev tcell.Event) string {
	switch e := ev.(type) {
	case *tcell.EventKey:
		return fmt.Sprintf("key:%d:%d:%d", e.Key(), e.Rune(), e.Modifiers())
	case *tcell.EventMouse:
		x, y := e.Position()
		return fmt.Sprintf("mouse:%d,%d:%d:%d", x, y, e.Buttons(), e.Modifiers())
	case *tcell.EventPaste:
		return fmt.Sprintf("paste:%v", e.Start())
	case *tcell.EventFocus:
		return fmt.Sprintf("focus:%v", e.Focused)
	case *tcell.EventResize:
		w, h := e.Size()
		return fmt.Sprintf("resize:%dx%d", w, h)
	}
	return fmt.Sprintf("%T", ev)
}

func mods(shift, alt, ctrl, meta bool) tcell.ModMask {
	var m tcell.ModMask
	if shift {
		m |= tcell.ModShift
	}
	if alt {
		m |= tcell.ModAlt
	}
	if ctrl {
		m |= tcell.ModCtrl
	}
	if meta {
		m |= tcell.ModMeta
	}
	return m
}

// world of one run
type ww struct {
	s      *simrt.Sim
	scr    tcell.Screen
	host   *sjs.Host
	pg     *page
	m      *lm.Model
	fail   *hx.Failure
	got    []string
	inCall string
	// the rendering of every row at the previous Show/Sync
	lastRows [][]lm.Glyph
}

func (w *ww) failf(tag, format string, args ...interface{}) {
	if w.fail == nil {
		w.fail = &hx.Failure{Tag: tag, Msg: fmt.Sprintf(format, args...)}
	}
}

func newWW(ch *simrt.Chooser) (*ww, error) {
	s := simrt.New(ch)
	w := &ww{s: s, host: sjs.Reset()}
	w.pg = &page{w: 80, h: 24, cells: make([]pcell, 80*24)}
	w.host.OnCall = w.pg.apply
	scr, err := tcell.NewTerminfoScreen()
	if err != nil {
		s.Shutdown()
		return nil, err
	}
	w.scr = scr
	w.m = lm.New(80, 24)
	return w, nil
}

// compare checks the page grid against the model after a Show/Sync.
func (w *ww) compare(when string) {
	if w.pg.bad != "" {
		w.failf("C19/grid", "%s: %s", when, w.pg.bad)
		return
	}
	m := w.m
	if w.pg.w != m.W || w.pg.h != m.H {
		return
	}
	for y := 0; y < m.H; y++ {
		row := m.Row(y)
		for x, g := range row {
			if g.Skip || g.Hidden {
				continue
			}
			c := w.pg.cells[y*m.W+x]
			if !c.set {
				w.failf("C19/grid", "%s: cell (%d,%d) was never drawn", when, x, y)
				return
			}
			want := string(g.R) + string(g.Comb)
			orig := m.At(x, y)
			if c.s != want {
				// a wide rune in the last column: the statement for this backend does not say blank
				if !(lm.Width(orig.R) == 2 && x == m.W-1 && c.s == string(orig.R)+string(orig.Comb)) && !(g.AltInvalid && strings.HasPrefix(c.s, "�")) {
					w.failf("C19/grid", "%s: cell (%d,%d) shows %q, expected %q", when, x, y, c.s, want)
					return
				}
			}
			ok := false
			var why string
			for _, st := range append([]lm.Style{g.St}, g.AltSt...) {
				why = ""
				// the default colour is the page's own default, whatever the
				// screen style's colours are (those apply to unstyled cells,
				// whose model style is then the screen style itself)
				wantFg, kFg := wantColor(st.Fg)
				wantBg, kBg := wantColor(st.Bg)
				if st.Fg == tcell.ColorDefault && w.pg.haveDef {
					wantFg, kFg = w.pg.defFg, true
				}
				if st.Bg == tcell.ColorDefault && w.pg.haveDef {
					wantBg, kBg = w.pg.defBg, true
				}
				if kFg && c.fg != wantFg {
					why = fmt.Sprintf("foreground #%06x, expected #%06x", c.fg, wantFg)
				} else if kBg && c.bg != wantBg {
					why = fmt.Sprintf("background #%06x, expected #%06x", c.bg, wantBg)
				} else if c.attrs != int(st.Attrs) {
					why = fmt.Sprintf("attribute bits %07b, expected %07b", c.attrs, int(st.Attrs))
				} else if c.us != int(st.Ul) {
					why = fmt.Sprintf("underline style %d, expected %d", c.us, int(st.Ul))
				} else if v, k := wantColor(st.UlC); k && st.Ul != 0 && c.uc != v {
					why = fmt.Sprintf("underline colour #%06x, expected #%06x", c.uc, v)
				}
				if why == "" {
					ok = true
					break
				}
			}
			if !ok {
				w.failf("C19/grid", "%s: cell (%d,%d) %q: %s (style %+v)", when, x, y, c.s, why, g.St)
				return
			}
		}
	}
}

// checkDraws: only changed cells are drawn by a Show.
func (w *ww) checkDraws(when string) {
	m := w.m
	for _, d := range w.pg.draws {
		x, y := d[0], d[1]
		if !m.In(x, y) {
			continue
		}
		ok := false
		for dx := -1; dx <= 1; dx++ {
			if m.In(x+dx, y) {
				c := m.At(x+dx, y)
				if c.Dirtied && (dx == 0 || c.WideDirt || lm.Width(c.R) == 2) {
					ok = true
				}
			}
		}
		// a cell whose appearance changed although nothing was stored in it:
		// the column a wide rune newly covers, or no longer covers because the
		// rune itself became hidden under another one
		if !ok && y < len(w.lastRows) && x < len(w.lastRows[y]) {
			was, now := w.lastRows[y][x], m.Row(y)[x]
			if was.R != now.R || was.Hidden != now.Hidden || was.Width != now.Width || was.X != now.X || string(was.Comb) != string(now.Comb) || was.St != now.St {
				ok = true
			}
		}
		if m.At(x, y).Locked {
			w.failf("C19/extra-draw", "%s: locked cell (%d,%d) was drawn", when, x, y)
			return
		}
		if !ok {
			w.failf("C19/extra-draw", "%s: unchanged cell (%d,%d) was drawn again", when, x, y)
			return
		}
	}
}

func (w *ww) afterShow(kind string, full bool) {
	w.m.Painted(full)
	w.compare("after " + kind)
	if !full && w.fail == nil {
		w.checkDraws("after " + kind)
	}
	w.pg.draws = w.pg.draws[:0]
	w.lastRows = w.lastRows[:0]
	for y := 0; y < w.m.H; y++ {
		w.lastRows = append(w.lastRows, w.m.Row(y))
	}
	for i := range w.m.Cells {
		if !w.m.Cells[i].Locked {
			w.m.Cells[i].Dirtied = false
			w.m.Cells[i].WideDirt = false
		}
	}
}

func (w *ww) finish(t *rapid.T, plan interface{}, faults map[string]int) {
	for _, g := range w.s.Goroutines() {
		if g.Panic != nil {
			w.failf("C19/panic", "panic in %s: %v\n%s", g.Name, g.Panic, g.PanicStack)
		}
	}
	hx.St.Record(w.s, faults, func() interface{} { return plan })
	tr, sig := w.s.Trace, w.s.Hash()
	if err := w.s.Shutdown(); err != nil {
		t.Fatalf("HARNESS: %v", err)
	}
	if w.fail != nil {
		hx.WriteTrace("C19", w.fail, plan, tr, nil, sig)
		t.Fatalf("VIOLATION %s: %s", w.fail.Tag, w.fail.Msg)
	}
}

// ---- (a) draw histories ----

func runDrawHistory(t *rapid.T) {
	n := rapid.IntRange(1, 30).Draw(t, "nops")
	var ops []op
	w0, h0 := rapid.IntRange(1, 10).Draw(t, "w"), rapid.IntRange(1, 5).Draw(t, "h")
	for i := 0; i < n; i++ {
		k := rapid.IntRange(0, 16).Draw(t, "op")
		switch {
		case k == 16:
			// the same text again, only its underline differs
			ops = append(ops, op{Kind: "restyle-ul", X: rapid.IntRange(0, 9).Draw(t, "ux"), Y: rapid.IntRange(0, 4).Draw(t, "uy"),
				W: rapid.IntRange(1, 5).Draw(t, "newul"), H: rapid.IntRange(0, 2).Draw(t, "newulc")})
		case k < 8:
			o := op{Kind: "set", X: rapid.IntRange(-1, 10).Draw(t, "x"), Y: rapid.IntRange(-1, 5).Draw(t, "y"), R: drawRune(t), St: drawStyle(t)}
			if lm.Width(o.R) >= 1 && rapid.IntRange(0, 5).Draw(t, "comb") == 0 {
				o.Comb = []rune{0x301}
			}
			ops = append(ops, o)
		case k < 11:
			ops = append(ops, op{Kind: "show"})
		case k == 11:
			ops = append(ops, op{Kind: "sync"})
		case k == 12:
			ops = append(ops, op{Kind: "fill", R: rune(rapid.IntRange(0x20, 0x7e).Draw(t, "fr")), St: drawStyle(t)})
		case k == 13:
			ops = append(ops, op{Kind: "setstyle", St: drawStyle(t)})
		case k == 14:
			ops = append(ops, op{Kind: "lock", X: rapid.IntRange(0, 9).Draw(t, "lx"), Y: rapid.IntRange(0, 4).Draw(t, "ly"), W: rapid.IntRange(1, 3).Draw(t, "lw"), H: 1, Lock: rapid.Bool().Draw(t, "lock")})
		default:
			ops = append(ops, op{Kind: "setsize", W: rapid.IntRange(1, 10).Draw(t, "sw"), H: rapid.IntRange(1, 5).Draw(t, "sh")})
		}
	}
	ops = append(ops, op{Kind: "show"})
	ch := hx.DrawChooser(t, 40)
	w, err := newWW(ch)
	if err != nil {
		t.Fatalf("HARNESS: %v", err)
	}
	w.s.Note(hx.Fingerprint(w0, h0, ops))
	w.s.Spawn("poller", func() {
		simrt.Wait("init", func() bool { return w.inCall != "init" })
		for w.scr.PollEvent() != nil {
		}
	})
	w.inCall = "init"
	app := w.s.Spawn("app", func() {
		if err := w.scr.Init(); err != nil {
			w.failf("C19/grid", "Init: %v", err)
			w.inCall = ""
			return
		}
		w.inCall = ""
		w.scr.SetSize(w0, h0)
		w.m.Resize(w0, h0)
		w.scr.Sync()
		if len(w.pg.cells) > 0 && w.pg.cells[0].set {
			// every cell is unstyled and no screen style is set: these are the
			// page's own default colours
			w.pg.defFg, w.pg.defBg, w.pg.haveDef = w.pg.cells[0].fg, w.pg.cells[0].bg, true
		}
		w.afterShow("Sync", true)
		for _, o := range ops {
			if w.fail != nil {
				break
			}
			switch o.Kind {
			case "set":
				w.scr.SetContent(o.X, o.Y, o.R, o.Comb, o.St.Build())
				w.m.SetContent(o.X, o.Y, o.R, o.Comb, o.St)
			case "restyle-ul":
				if w.m.In(o.X, o.Y) {
					if c := w.m.At(o.X, o.Y); !c.Locked {
						st := c.St
						if st.IsZero() {
							st.Fg = tcell.ColorGreen
						}
						st.Ul = tcell.UnderlineStyle(o.W)
						st.UlC = []tcell.Color{tcell.ColorDefault, tcell.ColorRed, tcell.NewRGBColor(1, 200, 3)}[o.H]
						st.Attrs |= tcell.AttrUnderline
						w.scr.SetContent(o.X, o.Y, c.R, append([]rune(nil), c.Comb...), st.Build())
						w.m.SetContent(o.X, o.Y, c.R, c.Comb, st)
					}
				}
			case "fill":
				w.scr.Fill(o.R, o.St.Build())
				w.m.Fill(o.R, o.St)
			case "setstyle":
				w.scr.SetStyle(o.St.Build())
				w.m.SetStyle(o.St)
				for i := range w.m.Cells {
					if w.m.Cells[i].St.IsZero() {
						w.m.Cells[i].Dirtied = true // the appearance of default-styled cells may change
					}
				}
			case "lock":
				w.scr.LockRegion(o.X, o.Y, o.W, o.H, o.Lock)
				w.m.Lock(o.X, o.Y, o.W, o.H, o.Lock)
			case "setsize":
				if o.W != w.m.W || o.H != w.m.H {
					w.scr.SetSize(o.W, o.H)
					w.m.Resize(o.W, o.H)
					// the page is blank after a resize: a Show has to bring
					// every cell back, not only a Sync
					if (o.W+o.H)%2 == 0 {
						w.scr.Show()
						w.afterShow("Show after SetSize", true)
					} else {
						w.scr.Sync()
						w.afterShow("Sync after SetSize", true)
					}
				}
			case "show":
				w.scr.Show()
				w.afterShow("Show", false)
			case "sync":
				w.scr.Sync()
				w.afterShow("Sync", true)
			}
		}
		w.scr.Fini()
	})
	w.s.Run()
	if !app.Done() && app.Panic == nil {
		w.failf("C19/deadlock", "the application is stuck: %v", w.s.Blocked())
	}
	var os []string
	for _, o := range ops {
		os = append(os, fmt.Sprintf("%s(%d,%d,%q,%+v)", o.Kind, o.X, o.Y, o.R, o.St))
	}
	w.finish(t, map[string]interface{}{"kind": "draw history", "size": fmt.Sprintf("%dx%d", w0, h0), "ops": os}, map[string]int{})
}

// ---- (b) callbacks from the JavaScript host ----

func runCallbacks(t *rapid.T) {
	flags := tcell.MouseFlags(rapid.IntRange(0, 7).Draw(t, "mouseflags"))
	mouseOn := rapid.Bool().Draw(t, "mouseon")
	pasteOn := rapid.Bool().Draw(t, "pasteon")
	focusOn := rapid.Bool().Draw(t, "focuson")
	names := make([]string, 0, len(tcell.WebKeyNames))
	for n := range tcell.WebKeyNames {
		names = append(names, n)
	}
	sort.Strings(names)
	var cbs []cb
	n := rapid.IntRange(1, 25).Draw(t, "ncb")
	for i := 0; i < n; i++ {
		sh, al, ct, me := rapid.Bool().Draw(t, "shift"), rapid.Bool().Draw(t, "alt"), rapid.Bool().Draw(t, "ctrl"), rapid.Bool().Draw(t, "meta")
		md := mods(sh, al, ct, me)
		switch rapid.IntRange(0, 7).Draw(t, "cbkind") {
		case 0, 1:
			name := rapid.SampledFrom(names).Draw(t, "keyname")
			if strings.HasPrefix(name, "Ctrl-") {
				// a control combination as the page reports it: key + ctrl
				key := strings.TrimPrefix(name, "Ctrl-")
				cbs = append(cbs, cb{"onKeyEvent", []interface{}{key, false, false, true, false}, fmt.Sprintf("key:%d:0:%d", tcell.WebKeyNames[name], tcell.ModCtrl)})
				continue
			}
			cbs = append(cbs, cb{"onKeyEvent", []interface{}{name, sh, al, ct, me}, fmt.Sprintf("key:%d:0:%d", tcell.WebKeyNames[name], md)})
		case 2:
			r := rune(rapid.SampledFrom([]rune{'a', 'Z', '1', ' ', 'é', '中', '~'}).Draw(t, "printable"))
			if ct && !sh && !al && !me {
				ct = false
				md = mods(sh, al, ct, me)
			}
			cbs = append(cbs, cb{"onKeyEvent", []interface{}{string(r), sh, al, ct, me}, fmt.Sprintf("key:%d:%d:%d", tcell.KeyRune, r, md)})
		case 3:
			cbs = append(cbs, cb{"onKeyEvent", []interface{}{rapid.SampledFrom([]string{"Control", "Alt", "Meta", "Shift"}).Draw(t, "modkey"), sh, al, ct, me}, ""})
		case 4, 5:
			btn := rapid.IntRange(0, 3).Draw(t, "btn")
			x, y := rapid.IntRange(0, 79).Draw(t, "mx"), rapid.IntRange(0, 23).Draw(t, "my")
			click := rapid.Bool().Draw(t, "click")
			if click && btn == 0 {
				btn = 1 // the page reports clicks with which = 1..3
			}
			name := "onMouseMove"
			if click {
				name = "onMouseClick"
			}
			want := ""
			bm := [4]tcell.ButtonMask{tcell.ButtonNone, tcell.Button1, tcell.Button3, tcell.Button2}[btn]
			enabled := mouseOn
			honoured := false
			if enabled {
				if click {
					honoured = flags&tcell.MouseButtonEvents != 0
				} else {
					honoured = flags&(tcell.MouseDragEvents|tcell.MouseMotionEvents) != 0
					if btn == 0 && flags&tcell.MouseMotionEvents == 0 {
						honoured = false
					}
				}
			}
			if honoured {
				want = fmt.Sprintf("mouse:%d,%d:%d:%d", x, y, bm, mods(sh, al, ct, false))
			}
			cbs = append(cbs, cb{name, []interface{}{x, y, btn, sh, al, ct}, want})
			// the same report again (a double click, the last move of a drag
			// followed by the click): every callback is its own event
			for rapid.IntRange(0, 2).Draw(t, "again") == 0 {
				cbs = append(cbs, cbs[len(cbs)-1])
			}
		case 6:
			start := rapid.Bool().Draw(t, "pstart")
			want := ""
			if pasteOn {
				want = fmt.Sprintf("paste:%v", start)
			}
			cbs = append(cbs, cb{"onPaste", []interface{}{start}, want})
		default:
			in := rapid.Bool().Draw(t, "fin")
			want := ""
			if focusOn {
				want = fmt.Sprintf("focus:%v", in)
			}
			cbs = append(cbs, cb{"onFocus", []interface{}{in}, want})
		}
	}
	explicitDisable := rapid.Bool().Draw(t, "explicitdisable")
	// an earlier EnableMouse with other modes, not followed by DisableMouse:
	// the later call replaces the modes, it does not add to them
	preFlags := tcell.MouseFlags(rapid.SampledFrom([]int{0, 0, 1, 3, 4, 5, 7}).Draw(t, "premouseflags"))
	cycle := rapid.IntRange(0, 2).Draw(t, "suspendresume") // Suspend/Resume cycles after the modes were set
	midSuspend := rapid.Bool().Draw(t, "midsuspend")       // callbacks also arrive while suspended: nothing may come of them
	ch := hx.DrawChooser(t, 60)
	w, err := newWW(ch)
	if err != nil {
		t.Fatalf("HARNESS: %v", err)
	}
	var want []string
	ready := false
	w.s.Note(hx.Fingerprint(cbNames(cbs), flags, mouseOn, pasteOn, focusOn, cycle, midSuspend, preFlags))
	w.s.Spawn("app", func() {
		if err := w.scr.Init(); err != nil {
			w.failf("C19/event", "Init: %v", err)
			ready = true
			return
		}
		if mouseOn && preFlags != 0 {
			var fl []tcell.MouseFlags
			for _, f := range []tcell.MouseFlags{tcell.MouseButtonEvents, tcell.MouseDragEvents, tcell.MouseMotionEvents} {
				if preFlags&f != 0 {
					fl = append(fl, f)
				}
			}
			w.scr.EnableMouse(fl...)
		}
		if mouseOn {
			var fl []tcell.MouseFlags
			for _, f := range []tcell.MouseFlags{tcell.MouseButtonEvents, tcell.MouseDragEvents, tcell.MouseMotionEvents} {
				if flags&f != 0 {
					fl = append(fl, f)
				}
			}
			if len(fl) == 0 {
				w.scr.EnableMouse()
				flags = 7
			} else {
				w.scr.EnableMouse(fl...)
			}
		} else if explicitDisable {
			w.scr.DisableMouse()
		}
		if pasteOn {
			w.scr.EnablePaste()
		}
		if focusOn {
			w.scr.EnableFocus()
		}
		for i := 0; i < cycle; i++ {
			_ = w.scr.Suspend()
			if midSuspend {
				n0 := len(w.got)
				w.host.Invoke("onKeyEvent", "q", false, false, false, false)
				w.host.Invoke("onMouseClick", 1, 1, 1, false, false, false)
				w.host.Invoke("onPaste", true)
				simrt.Sleep("suspended", hx.Ms(1))
				if len(w.got) != n0 {
					w.failf("C19/event", "callbacks delivered while the screen was suspended produced events %v", w.got[n0:])
				}
			}
			if err := w.scr.Resume(); err != nil {
				w.failf("C19/event", "Resume: %v", err)
			}
			if focusOn {
				// focus reporting is not among the modes Resume re-applies in
				// this backend's Suspend (it only unhooks key, mouse, paste)
			}
		}
		ready = true
	})
	w.s.Spawn("poller", func() {
		simrt.Wait("ready", func() bool { return ready })
		for {
			ev := w.scr.PollEvent()
			if ev == nil {
				return
			}
			w.got = append(w.got, desc(ev))
		}
	})
	w.s.Spawn("host", func() {
		simrt.Wait("ready", func() bool { return ready })
		for _, c := range cbs {
			c := c
			// the mouse expectations depend on the flags in force (EnableMouse() without flags = all)
			doneCb := false
			simrt.Go("js-callback", func() {
				if !w.host.Invoke(c.Name, c.Args...) && c.Want != "" {
					w.failf("C19/event", "no callback %s is registered although the mode is enabled", c.Name)
				}
				doneCb = true
			})
			simrt.Wait("callback-returned", func() bool { return doneCb })
			if c.Want != "" {
				want = append(want, c.Want)
			}
		}
	})
	w.s.Run()
	if mouseOn && flags == 7 {
		// recompute expectations for the "no flags = everything" case
		want = want[:0]
		for _, c := range cbs {
			if strings.HasPrefix(c.Name, "onMouse") {
				btn := c.Args[2].(int)
				bm := [4]tcell.ButtonMask{tcell.ButtonNone, tcell.Button1, tcell.Button3, tcell.Button2}[btn]
				want = append(want, fmt.Sprintf("mouse:%d,%d:%d:%d", c.Args[0], c.Args[1], bm, mods(c.Args[3].(bool), c.Args[4].(bool), c.Args[5].(bool), false)))
			} else if c.Want != "" {
				want = append(want, c.Want)
			}
		}
	}
	if w.fail == nil && strings.Join(w.got, " ") != strings.Join(want, " ") {
		i := 0
		for i < len(w.got) && i < len(want) && w.got[i] == want[i] {
			i++
		}
		g, x := "<nothing>", "<nothing>"
		if i < len(w.got) {
			g = w.got[i]
		}
		if i < len(want) {
			x = want[i]
		}
		tag := "C19/event"
		if strings.HasPrefix(g, "mouse") || strings.HasPrefix(x, "mouse") {
			tag = "C19/mouse-mode"
		}
		w.failf(tag, "callbacks %v (mouse flags %03b enabled=%v paste=%v focus=%v) produced %v; first difference at #%d: got %s, expected %s", cbNames(cbs), flags, mouseOn, pasteOn, focusOn, w.got, i, g, x)
	}
	fin := w.s.Spawn("fini", func() { w.scr.Fini() })
	w.s.Run()
	if !fin.Done() {
		w.failf("C19/deadlock", "Fini never returns: %v", w.s.Blocked())
	}
	w.finish(t, map[string]interface{}{"kind": "callbacks", "callbacks": cbNames(cbs), "mouse_flags": int(flags)}, map[string]int{"js_callback": len(cbs)})
}

func cbNames(cbs []cb) []string {
	var out []string
	for _, c := range cbs {
		out = append(out, fmt.Sprintf("%s%v", c.Name, c.Args))
	}
	return out
}

// ---- (b2) callback bursts while the application is busy ----

// runBurst: the JavaScript side delivers more callbacks than the event queue
// holds while the application is busy elsewhere (not polling).  Each callback
// runs on its own goroutine and may have to wait; when the application polls
// again every one of them must have become an event (as a multiset: the
// order among callbacks that wait at the same time is not defined).
func runBurst(t *rapid.T) {
	n := rapid.IntRange(8, 30).Draw(t, "burst")
	busy := rapid.SampledFrom([]int{1, 5, 50}).Draw(t, "busyms")
	paste := rapid.Bool().Draw(t, "paste")
	ch := hx.DrawChooser(t, 80)
	w, err := newWW(ch)
	if err != nil {
		t.Fatalf("HARNESS: %v", err)
	}
	w.s.Note(hx.Fingerprint("burst", n, busy, paste))
	ready := false
	fired := 0
	w.s.Spawn("app", func() {
		if err := w.scr.Init(); err != nil {
			w.failf("C19/event", "Init: %v", err)
			ready = true
			return
		}
		if paste {
			w.scr.EnablePaste()
		}
		ready = true
		// busy elsewhere: a render loop waiting for its next frame
		simrt.Sleep("app.busy", hx.Ms(busy))
		simrt.Wait("burst-fired", func() bool { return fired == n })
		for len(w.got) < n {
			ev := w.scr.PollEvent()
			if ev == nil {
				return
			}
			w.got = append(w.got, desc(ev))
			if !w.scr.HasPendingEvent() && len(w.got) < n {
				// let the waiting callbacks move up
				simrt.Sleep("app.frame", hx.Ms(1))
				if !w.scr.HasPendingEvent() {
					return
				}
			}
		}
	})
	w.s.Spawn("host", func() {
		simrt.Wait("ready", func() bool { return ready })
		for i := 0; i < n; i++ {
			key := string(rune('a' + i%26))
			simrt.Go("js-callback", func() { w.host.Invoke("onKeyEvent", key, false, false, false, false) })
			fired++
		}
	})
	w.s.Run()
	if w.fail == nil && len(w.got) != n {
		w.failf("C19/event", "%d key callbacks arrived while the application was busy for %d ms (the event queue holds 10); only %d became events: %v", n, busy, len(w.got), w.got)
	}
	if w.fail == nil {
		cnt := map[string]int{}
		for _, g := range w.got {
			cnt[g]++
		}
		for i := 0; i < n; i++ {
			cnt[fmt.Sprintf("key:%d:%d:0", tcell.KeyRune, 'a'+i%26)]--
		}
		for k, v := range cnt {
			if v != 0 {
				w.failf("C19/event", "burst of %d key callbacks: event %s delivered %+d times too often/seldom (%v)", n, k, v, w.got)
				break
			}
		}
	}
	fin := w.s.Spawn("fini", func() { w.scr.Fini() })
	w.s.Run()
	if !fin.Done() {
		w.failf("C19/deadlock", "Fini never returns after a callback burst: %v", w.s.Blocked())
	}
	w.finish(t, map[string]interface{}{"kind": "burst", "callbacks": n, "busy_ms": busy}, map[string]int{"js_callback": n, "callback_burst": 1})
}

// ---- (c) lifecycle orders ----

var lifeOps = []string{"Suspend", "Resume", "SetSize", "Fini"}

// runLifecycle executes one order of lifecycle calls followed by a probe of
// ordinary calls; every call must return (exact deadlock verdict).
// lifeOpts: how the rest of the application behaves meanwhile.  burst: key
// callbacks the host delivers back to back (the event queue holds 10);
// pollerPause: ms the event loop spends on each event; handlerCalls: the
// event loop calls Size()/Show() for each event, as applications do.
type lifeOpts struct {
	withHost     bool
	burst        int
	pollerPause  int
	handlerCalls bool
	appPause     int  // ms before each lifecycle call
	burstFirst   bool // the burst comes before the ticking keys
}

func runLifecycle(order []int, ch *simrt.Chooser, lo lifeOpts) (*hx.Failure, *simrt.Sim, error) {
	withHost := lo.withHost
	w, err := newWW(ch)
	if err != nil {
		return nil, nil, err
	}
	var names []string
	for _, o := range order {
		names = append(names, lifeOps[o])
	}
	app := w.s.Spawn("app", func() {
		if err := w.scr.Init(); err != nil {
			w.failf("C19/deadlock", "Init: %v", err)
			return
		}
		for i, o := range order {
			if lo.appPause > 0 {
				simrt.Sleep("app.pause", hx.Ms(lo.appPause))
			}
			w.inCall = fmt.Sprintf("%s (call #%d of %v)", lifeOps[o], i+1, names)
			switch lifeOps[o] {
			case "Suspend":
				_ = w.scr.Suspend()
			case "Resume":
				_ = w.scr.Resume()
			case "SetSize":
				w.scr.SetSize(10+i, 5+i)
			case "Fini":
				w.scr.Fini()
			}
		}
		w.inCall = fmt.Sprintf("Size/Show/SetContent after %v", names)
		w.scr.Size()
		w.scr.SetContent(0, 0, 'x', nil, tcell.StyleDefault)
		w.scr.Show()
		w.scr.EnableMouse()
		w.inCall = ""
	})
	w.s.Spawn("poller", func() {
		simrt.Sleep("poller.start", hx.Ms(1))
		for w.scr.PollEvent() != nil {
			if lo.pollerPause > 0 {
				simrt.Sleep("poller.handle", hx.Ms(lo.pollerPause))
			}
			if lo.handlerCalls {
				w.scr.Size()
				simrt.Yield("poller.between")
				w.scr.Show()
			}
		}
	})
	if withHost {
		w.s.Spawn("host", func() {
			if !lo.burstFirst {
				for i := 0; i < 6; i++ {
					simrt.Sleep("host.tick", hx.Ms(1))
					w.host.Invoke("onKeyEvent", "a", false, false, false, false)
				}
			}
			for i := 0; i < lo.burst; i++ {
				// (each callback runs on its own goroutine, as in a browser
				// the Go side of a callback does)
				simrt.Go("js-callback", func() { w.host.Invoke("onKeyEvent", "b", false, false, false, false) })
			}
		})
	}
	w.s.Run()
	if !app.Done() && app.Panic == nil {
		w.failf("C19/deadlock", "%s never returns: %v", w.inCall, w.s.Blocked())
	}
	for _, g := range w.s.Goroutines() {
		if g.Panic != nil {
			w.failf("C19/panic", "panic in %s during %v: %v\n%s", g.Name, names, g.Panic, g.PanicStack)
		}
	}
	// Fini releases whoever waits for room in the event queue: a callback
	// from JavaScript that is still parked after Fini returned (and the
	// simulation ran to quiescence) stays parked for good - in a browser
	// that is a frozen page.
	finiCalled := false
	for _, n := range names {
		finiCalled = finiCalled || n == "Fini"
	}
	if w.fail == nil && finiCalled && app.Done() {
		for _, g := range w.s.Goroutines() {
			if !g.Done() && g.Panic == nil && (strings.HasPrefix(g.Name, "js-callback") || g.Name == "host") {
				w.failf("C19/deadlock", "%s is still waiting after Fini returned (%v): a callback parked on the full event queue is never released: %v", g.Name, names, w.s.Blocked())
				break
			}
		}
	}
	return w.fail, w.s, nil
}

func TestC19(t *testing.T) {
	cf := hx.LoadCase()
	// pure clause, enumerated: all lifecycle orders up to length 4
	var orders [][]int
	var gen func(prefix []int)
	gen = func(prefix []int) {
		if len(prefix) > 0 {
			orders = append(orders, append([]int(nil), prefix...))
		}
		if len(prefix) == 4 {
			return
		}
		for i := range lifeOps {
			gen(append(prefix, i))
		}
	}
	gen(nil)
	wi, wn := hx.Worker()
	for oi, order := range orders {
		if cf != nil {
			if int(cf.Case["order"].(float64)) != oi {
				continue
			}
		} else if oi%wn != wi {
			continue
		}
		hx.Arm("C19 lifecycle")
		f, s, err := runLifecycle(order, &simrt.Chooser{}, lifeOpts{withHost: oi%2 == 0})
		if err != nil {
			t.Fatalf("HARNESS: %v", err)
		}
		hx.St.Record(s, map[string]int{"js_callback": 1}, nil)
		hx.St.Enumerated["C19 lifecycle orders (length <= 4)"]++
		if err := s.Shutdown(); err != nil {
			t.Fatalf("HARNESS: %v", err)
		}
		hx.Disarm()
		if f != nil {
			t.Log(hx.ReportCase("C19", "TestC19", f.Tag, f.Msg, map[string]interface{}{"order": oi}))
			t.FailNow()
		}
	}
	if cf != nil {
		return
	}
	rapid.Check(t, func(rt *rapid.T) {
		if hx.PastDeadline() {
			return
		}
		hx.Arm("C19")
		defer hx.Disarm()
		switch rapid.IntRange(0, 3).Draw(rt, "part") {
		case 0:
			runDrawHistory(rt)
		case 1:
			runCallbacks(rt)
		case 3:
			runBurst(rt)
		default:
			n := rapid.IntRange(5, 9).Draw(rt, "len")
			var order []int
			for i := 0; i < n; i++ {
				order = append(order, rapid.IntRange(0, 3).Draw(rt, "lop"))
			}
			lo := lifeOpts{withHost: true, burst: rapid.SampledFrom([]int{0, 0, 4, 12, 20}).Draw(rt, "burst"),
				pollerPause: rapid.SampledFrom([]int{0, 0, 1, 3}).Draw(rt, "pollerpause"), handlerCalls: rapid.Bool().Draw(rt, "handlercalls"),
				appPause: rapid.SampledFrom([]int{0, 1, 2, 5}).Draw(rt, "apppause"), burstFirst: rapid.Bool().Draw(rt, "burstfirst")}
			ch := hx.DrawChooser(rt, 80)
			f, s, err := runLifecycle(order, ch, lo)
			if err != nil {
				rt.Fatalf("HARNESS: %v", err)
			}
			hx.St.Record(s, map[string]int{"js_callback": 1}, nil)
			tr, sig := s.Trace, s.Hash()
			if err := s.Shutdown(); err != nil {
				rt.Fatalf("HARNESS: %v", err)
			}
			if f != nil {
				hx.WriteTrace("C19", f, map[string]interface{}{"order": order, "opts": fmt.Sprintf("%+v", lo)}, tr, nil, sig)
				rt.Fatalf("VIOLATION %s: %s", f.Tag, f.Msg)
			}
		}
	})
}
