// Package tputs is the harness for C15.  The padding clause ("sleeping the
// specified time only when the terminal description has a pad character")
// can only be measured on a simulated clock: Terminfo.TPuts runs on a
// simulated goroutine, its time.Sleep is the simulator's, and a recording
// writer stamps every Write with the simulated time.  TGoto and TColor are
// pure clauses, enumerated against per-family decoders.
package tputs

import (
	"errors"
	"fmt"
	"os"
	"reflect"
	"sort"
	"strings"
	"testing"
	"time"

	"github.com/gdamore/tcell/v2/terminfo"
	"pgregory.net/rapid"
	"verif.local/hx"
	"verif.local/simrt"
	"verif.local/vt"
)

func TestMain(m *testing.M) {
	code := m.Run()
	hx.St.Flush()
	os.Exit(code)
}

type wr struct {
	s    *simrt.Sim
	segs []seg
	fail int // >0: fail from the n-th write on
	n    int
}

type seg struct {
	b  string
	at time.Duration
}

func (w *wr) Write(p []byte) (int, error) {
	w.n++
	if w.fail > 0 && w.n >= w.fail {
		return 0, errors.New("injected write failure")
	}
	if len(p) > 0 {
		w.segs = append(w.segs, seg{string(p), w.s.Now()})
	}
	return len(p), nil
}

// ---- reference: the statement, executable ----

// padSpec parses a well-formed padding body n[.m][*][/] and returns the delay.
func padSpec(body string) (time.Duration, bool) {
	i := 0
	digits := func() (string, bool) {
		j := i
		for i < len(body) && body[i] >= '0' && body[i] <= '9' {
			i++
		}
		return body[j:i], i > j
	}
	whole, ok := digits()
	if !ok {
		return 0, false
	}
	frac := ""
	if i < len(body) && body[i] == '.' {
		i++
		frac, ok = digits()
		if !ok {
			return 0, false
		}
	}
	seenStar, seenSlash := false, false
	for i < len(body) {
		switch {
		case body[i] == '*' && !seenStar:
			seenStar = true
		case body[i] == '/' && !seenSlash:
			seenSlash = true
		default:
			return 0, false
		}
		i++
	}
	if len(whole) > 9 || len(frac) > 6 {
		return 0, false // keep the arithmetic exact; longer numbers are not generated
	}
	var ns int64
	for _, c := range whole {
		ns = ns*10 + int64(c-'0')
	}
	ns *= int64(time.Millisecond)
	unit := int64(time.Millisecond)
	for _, c := range frac {
		unit /= 10
		ns += int64(c-'0') * unit
	}
	return time.Duration(ns), true
}

// reference returns the bytes that must be written and the total delay.
func reference(s string, pad bool) (string, time.Duration) {
	var out strings.Builder
	var total time.Duration
	for {
		beg := strings.Index(s, "$<")
		if beg < 0 {
			out.WriteString(s)
			break
		}
		end := strings.Index(s[beg:], ">")
		if end < 0 {
			out.WriteString(s) // unterminated: verbatim
			break
		}
		body := s[beg+2 : beg+end]
		if d, ok := padSpec(body); ok {
			out.WriteString(s[:beg])
			if pad {
				total += d
			}
			s = s[beg+end+1:]
			continue
		}
		// not a well-formed padding specification: "$<" is ordinary text;
		// a later "$<" may still start one
		out.WriteString(s[:beg+2])
		s = s[beg+2:]
	}
	return out.String(), total
}

type tcase struct {
	s   string
	pad bool
}

// runBatch executes TPuts for every case on one simulated goroutine.
func runBatch(cases []tcase, failWriter bool) (*hx.Failure, error) {
	s := simrt.New(&simrt.Chooser{})
	s.MaxSteps = 1 << 40
	if len(cases) > 0 {
		s.Note(hx.Fingerprint(len(cases), cases[0], cases[len(cases)-1], cases[len(cases)/2], failWriter))
	}
	var f *hx.Failure
	mk := func(tag, format string, args ...interface{}) {
		if f == nil {
			f = &hx.Failure{Tag: tag, Msg: fmt.Sprintf(format, args...)}
		}
	}
	g := s.Spawn("tputs", func() {
		for _, c := range cases {
			ti := &terminfo.Terminfo{Name: "t"}
			if c.pad {
				ti.PadChar = "\x00"
			}
			w := &wr{s: s}
			if failWriter {
				w.fail = 2
			}
			t0 := s.Now()
			ti.TPuts(w, c.s)
			took := s.Now() - t0
			if failWriter {
				continue // only: no panic, terminates
			}
			wantB, wantD := reference(c.s, c.pad)
			var got strings.Builder
			for _, sg := range w.segs {
				got.WriteString(sg.b)
			}
			if got.String() != wantB {
				mk("C15/bytes", "TPuts(%q) (pad char: %v) wrote %q, expected %q", c.s, c.pad, got.String(), wantB)
				return
			}
			if took != wantD {
				mk("C15/sleep", "TPuts(%q) (pad char: %v) slept %v of simulated time, expected %v", c.s, c.pad, took, wantD)
				return
			}
			// order: the bytes before a padding spec are written before its
			// delay elapses, the bytes after it afterwards
			if c.pad && wantD > 0 {
				if first := w.segs; len(first) > 0 && first[len(first)-1].at-t0 > wantD {
					mk("C15/sleep", "TPuts(%q): a write happened at +%v, after the total delay %v", c.s, first[len(first)-1].at-t0, wantD)
					return
				}
			}
		}
	})
	st := s.Run()
	if f == nil && (st != simrt.Quiescent || !g.Done()) {
		if g.Panic != nil {
			mk("C15/bytes", "TPuts panics: %v", g.Panic)
		} else {
			mk("C15/sleep", "TPuts does not terminate (status %v)", st)
		}
	}
	if g.Panic != nil && f == nil {
		mk("C15/bytes", "TPuts panics: %v\n%s", g.Panic, g.PanicStack)
	}
	hx.St.Record(s, map[string]int{"padding_sleep": 1}, nil)
	return f, s.Shutdown()
}

var alphabet = []byte("$<>.015*/a")

func enumStrings(n int, visit func(string)) {
	buf := make([]byte, n)
	var rec func(i int)
	rec = func(i int) {
		if i == n {
			visit(string(buf))
			return
		}
		for _, c := range alphabet {
			buf[i] = c
			rec(i + 1)
		}
	}
	rec(0)
}

func report(t *testing.T, f *hx.Failure, c map[string]interface{}) {
	t.Log(hx.ReportCase("C15", "TestC15", f.Tag, f.Msg, c))
	t.FailNow()
}

// ---- cursor addressing and colour decoders ----

func capStrings(ti *terminfo.Terminfo) map[string]string {
	out := map[string]string{}
	rv := reflect.ValueOf(ti).Elem()
	rt := rv.Type()
	for i := 0; i < rt.NumField(); i++ {
		if rt.Field(i).Type.Kind() == reflect.String && rt.Field(i).Name != "Name" {
			if s := rv.Field(i).String(); s != "" {
				out[rt.Field(i).Name] = s
			}
		}
	}
	return out
}

// wantGoto is the addressing convention of the entry, from its cup string.
func wantGoto(ti *terminfo.Terminfo, col, row int) (string, bool) {
	cup := ti.SetCursor
	pad := ""
	if i := strings.Index(cup, "$<"); i >= 0 {
		pad = cup[i:]
		cup = cup[:i]
	}
	switch cup {
	case "\x1b[%i%p1%d;%p2%dH":
		return fmt.Sprintf("\x1b[%d;%dH", row+1, col+1) + pad, true
	case "\x1b=%p1%' '%+%c%p2%' '%+%c", "\x1bY%p1%' '%+%c%p2%' '%+%c":
		if row+32 > 255 || col+32 > 255 {
			return "", false // not expressible in one byte
		}
		return cup[:2] + string([]byte{byte(row + 32), byte(col + 32)}) + pad, true
	case "\x1b&a%p1%dy%p2%dC":
		return fmt.Sprintf("\x1b&a%dy%dC", row, col) + pad, true
	}
	return "", false
}

func TestC15(t *testing.T) {
	cf := hx.LoadCase()
	wi, wn := hx.Worker()
	thorough := hx.Thorough()
	maxLen := 5
	if thorough {
		maxLen = 7
	}
	// (1) simulated clause: exhaustive strings over the padding alphabet
	if cf == nil || cf.Case["kind"] == "string" {
		var batch []tcase
		idx := 0
		flush := func(force bool) {
			if len(batch) == 0 || (!force && len(batch) < 20000) {
				return
			}
			hx.Arm("C15 strings")
			f, err := runBatch(batch, false)
			hx.Disarm()
			if err != nil {
				t.Fatalf("HARNESS: %v", err)
			}
			hx.St.Enumerated["C15 padding strings x pad-char settings"] += len(batch)
			if f != nil {
				// find the failing string again for the case file
				report(t, f, map[string]interface{}{"kind": "string", "msg": f.Msg})
			}
			batch = batch[:0]
		}
		if cf != nil {
			// replay: the message names the string; re-run everything up to maxLen 7 is cheap enough per shard 0
			wi, wn = 0, 1
			maxLen = 7
		}
		for n := 0; n <= maxLen; n++ {
			enumStrings(n, func(s string) {
				idx++
				if idx%wn != wi {
					return
				}
				if !strings.Contains(s, "$") && n > 2 {
					return // no padding marker at all: covered by the shorter strings
				}
				batch = append(batch, tcase{s, true}, tcase{s, false})
				flush(false)
			})
			if hx.PastDeadline() {
				hx.St.Notes = append(hx.St.Notes, fmt.Sprintf("deadline reached at string length %d", n))
				break
			}
		}
		flush(true)
		// every capability string of the database, with and without pad char
		for _, name := range hx.TermNames() {
			// (in field order: one seed is one execution, also in the order
			// of the cases)
			caps := capStrings(hx.Term(name, false))
			var fields []string
			for field := range caps {
				fields = append(fields, field)
			}
			sort.Strings(fields)
			for _, field := range fields {
				s := caps[field]
				batch = append(batch, tcase{s, true}, tcase{s, false})
			}
		}
		flush(true)
		// failing writer: must not panic or loop
		var fw []tcase
		for _, s := range []string{"", "abc", "a$<5>b", "$<1>$<2>x", "$<", "a$<3"} {
			fw = append(fw, tcase{s, true})
		}
		if f, err := runBatch(fw, true); err != nil {
			t.Fatalf("HARNESS: %v", err)
		} else if f != nil {
			report(t, f, map[string]interface{}{"kind": "string", "msg": f.Msg})
		}
		if cf != nil {
			return
		}
	}
	// (2) pure clause: TGoto for every entry over 0..300 x 0..300
	for ei, name := range hx.TermNames() {
		if ei%wn != wi && cf == nil {
			continue
		}
		if cf != nil && cf.Case["term"] != name {
			continue
		}
		ti := hx.Term(name, false)
		step := 1
		if !thorough {
			step = 7
		}
		bad := 0
		for row := 0; row <= 300 && bad == 0; row += step {
			for col := 0; col <= 300; col += step {
				want, ok := wantGoto(ti, col, row)
				if !ok {
					continue
				}
				if got := ti.TGoto(col, row); got != want {
					f := &hx.Failure{Tag: "C15/goto", Msg: fmt.Sprintf("%s: TGoto(col %d, row %d) = %q, the terminal's convention gives %q", name, col, row, got, want)}
					report(t, f, map[string]interface{}{"kind": "goto", "term": name})
					bad++
					break
				}
				hx.St.Enumerated["C15 TGoto positions"]++
			}
		}
		if _, ok := wantGoto(ti, 0, 0); !ok {
			f := &hx.Failure{Tag: "C15/goto", Msg: fmt.Sprintf("%s: cursor addressing string %q follows no known convention", name, ti.SetCursor)}
			report(t, f, map[string]interface{}{"kind": "goto", "term": name})
		}
		// (3) pure clause: TColor(fg,bg) for -1..300
		if ti.SetFg == "" && ti.SetBg == "" {
			continue
		}
		// the colour count is the description's own (as shipped), not what a
		// lookup may have turned it into
		colors := hx.PristineColors(name)
		top := 300
		if colors > 256 {
			// direct-colour entries: their strings can only express the
			// 256 palette entries; larger "in range" values have no meaning
			// the statement defines
			top = 255
		}
		// ... and the same after the entry has (also) been looked up under
		// its -truecolor name: the palette strings are still the entry's
		tis := []*terminfo.Terminfo{ti, hx.Term(name, true), hx.Term(name, false)}
		for vi, ti := range tis {
			for fg := -1; fg <= top; fg++ {
				if vi > 0 && fg%5 != 0 && fg > 20 {
					continue
				}
				for bg := -1; bg <= top; bg += 1 + (fg+1)%3 {
					s := ti.TColor(fg, bg)
					term := vt.New(2, 1, nil)
					term.Write([]byte(s))
					if len(term.Errors) > 0 || !term.InGround() {
						f := &hx.Failure{Tag: "C15/color", Msg: fmt.Sprintf("%s: TColor(%d,%d) = %q is not a well-formed control sequence: %v", name, fg, bg, s, term.Errors)}
						report(t, f, map[string]interface{}{"kind": "color", "term": name})
					}
					exp := func(i int) vt.Color {
						if colors == 8 && i > 7 && i < 16 {
							i -= 8
						}
						if i < 0 || i >= colors {
							return vt.Color{}
						}
						return vt.Color{Kind: vt.ColPalette, V: i}
					}
					if term.Pen.Fg != exp(fg) || term.Pen.Bg != exp(bg) || term.Pen.Attr != 0 || term.Pen.Ul != 0 {
						f := &hx.Failure{Tag: "C15/color", Msg: fmt.Sprintf("%s (%d colours): TColor(%d,%d) = %q selects fg %v bg %v, expected fg %v bg %v", name, colors, fg, bg, s, term.Pen.Fg, term.Pen.Bg, exp(fg), exp(bg))}
						report(t, f, map[string]interface{}{"kind": "color", "term": name})
					}
					hx.St.Enumerated["C15 TColor pairs"]++
				}
			}
		}
	}
	// (3b) history: an 8-colour entry is used, then the library fabricates its
	// 256-colour variant from it (LookupTerminfo of name-256color amends the
	// -color entry in place); the colour strings must follow the entry as it
	// is now, not as it was when they were first asked for
	for ei, name := range hx.TermNames() {
		if (ei%wn != wi && cf == nil) || hx.PristineColors(name) != 8 {
			continue
		}
		if cf != nil && cf.Case["term"] != name {
			continue
		}
		ent, base := hx.ScratchColorEntry(name)
		if ent == nil || (ent.SetFg == "" && ent.SetBg == "") {
			continue
		}
		pairs := [][2]int{{9, 12}, {1, 2}, {15, 0}, {-1, 9}, {12, -1}, {7, 8}, {200, 100}}
		for _, pr := range pairs {
			_ = ent.TColor(pr[0], pr[1]) // as an 8-colour terminal
		}
		got, err := terminfo.LookupTerminfo(base + "-256color")
		if err != nil || got != ent || ent.Colors != 256 {
			continue // the library did not fabricate from this object: nothing to check
		}
		for _, pr := range pairs {
			s := ent.TColor(pr[0], pr[1])
			term := vt.New(2, 1, nil)
			term.Write([]byte(s))
			exp := func(i int) vt.Color {
				if i < 0 || i >= 256 {
					return vt.Color{}
				}
				return vt.Color{Kind: vt.ColPalette, V: i}
			}
			if len(term.Errors) > 0 || term.Pen.Fg != exp(pr[0]) || term.Pen.Bg != exp(pr[1]) {
				f := &hx.Failure{Tag: "C15/color", Msg: fmt.Sprintf("%s, after the library fabricated its 256-colour variant from the entry: TColor(%d,%d) = %q selects fg %v bg %v, expected fg %v bg %v (errors %v)", name, pr[0], pr[1], s, term.Pen.Fg, term.Pen.Bg, exp(pr[0]), exp(pr[1]), term.Errors)}
				report(t, f, map[string]interface{}{"kind": "color256", "term": name})
			}
			hx.St.Enumerated["C15 TColor pairs"]++
		}
	}
	if cf != nil {
		return
	}
	// (4) simulated clause, seeded: longer strings mixing ordinary bytes and markers
	rapid.Check(t, func(rt *rapid.T) {
		if hx.PastDeadline() {
			return
		}
		n := rapid.IntRange(0, 40).Draw(rt, "n")
		var b []byte
		for i := 0; i < n; i++ {
			switch rapid.IntRange(0, 5).Draw(rt, "k") {
			case 0:
				b = append(b, "$<"...)
			case 1:
				b = append(b, '>')
			case 2:
				b = append(b, byte(rapid.IntRange('0', '9').Draw(rt, "d")))
			case 3:
				b = append(b, rapid.SampledFrom([]byte(".*/$<")).Draw(rt, "p"))
			default:
				b = append(b, byte(rapid.IntRange(0x20, 0x7e).Draw(rt, "c")))
			}
		}
		f, err := runBatch([]tcase{{string(b), true}, {string(b), false}}, false)
		if err != nil {
			rt.Fatalf("HARNESS: %v", err)
		}
		if f != nil {
			hx.WriteTrace("C15", f, map[string]interface{}{"string": string(b)}, nil, nil, 0)
			rt.Fatalf("VIOLATION %s: %s", f.Tag, f.Msg)
		}
	})
}
