// Package race is the deterministic-simulation harness for C10: concurrent
// use of one Screen from several goroutines.  The binary is built with
// -race; tcell (and the standard library) are instrumented, the simulator
// and this harness are not.  Goroutines run strictly one at a time under
// the seeded scheduler, and the hand-off between them creates no
// happens-before edge, so a race report depends only on which accesses a
// run performs and on the synchronisation tcell itself does - that is, on
// the replayable schedule.
package race

import (
	"fmt"
	"os"
	"path/filepath"
	"sort"
	"strings"
	"testing"

	"github.com/gdamore/tcell/v2"
	tenc "github.com/gdamore/tcell/v2/encoding"
	"pgregory.net/rapid"
	"verif.local/hx"
	"verif.local/simrt"
	"verif.local/vt"
)

func TestMain(m *testing.M) {
	tenc.Register()
	code := m.Run()
	hx.St.Flush()
	os.Exit(code)
}

var methods = []string{
	"SetContent", "SetCell", "GetContent", "Fill", "Clear", "SetStyle", "ShowCursor", "HideCursor", "SetCursorStyle",
	"Size", "EnableMouse", "DisableMouse", "EnablePaste", "DisablePaste", "EnableFocus", "DisableFocus", "HasMouse", "Colors",
	"Show", "Sync", "CharacterSet", "RegisterRuneFallback", "UnregisterRuneFallback", "CanDisplay", "HasKey", "Beep", "SetSize",
	"SetTitle", "SetClipboard", "GetClipboard", "HasPendingEvent", "PostEvent", "PollEvent", "LockRegion", "Tty", "Suspend", "Resume",
	"Show", "Show", "SetContent", "SetContent", "PostEvent",
}

type call struct {
	M    string
	A, B int
}

type plan struct {
	Cfg    hx.Config
	Progs  [][]call
	Stims  []call // input / resize / pause
	Fini   int    // which actor calls Fini at the end (-1: driver actor after all), -2: two actors concurrently
	Sim    bool   // SimulationScreen instead of the terminfo screen
	Pair   bool
	Locale string
}

// swarm: a plan may concentrate on one family of methods, so that rare
// pairings (two lifecycle calls in flight at once) are not left to chance.
var focusSets = [][]string{
	nil, nil, nil,
	{"Suspend", "Resume", "Suspend", "Resume", "Show", "PostEvent"},
	{"EnableMouse", "DisableMouse", "EnablePaste", "DisablePaste", "EnableFocus", "DisableFocus", "Suspend", "Resume", "SetCursorStyle", "SetTitle"},
	{"SetSize", "Show", "Sync", "Size", "Fill", "Clear", "LockRegion", "SetContent"},
}

func drawCall(t *rapid.T, focus []string) call {
	if focus != nil && rapid.IntRange(0, 1).Draw(t, "infocus") == 0 {
		return call{M: rapid.SampledFrom(focus).Draw(t, "fm"), A: rapid.IntRange(0, 9).Draw(t, "a"), B: rapid.IntRange(0, 5).Draw(t, "b")}
	}
	return call{M: rapid.SampledFrom(methods).Draw(t, "m"), A: rapid.IntRange(0, 9).Draw(t, "a"), B: rapid.IntRange(0, 5).Draw(t, "b")}
}

func drawPlan(t *rapid.T) *plan {
	p := &plan{}
	p.Cfg = hx.DrawConfig(t, []string{"xterm-256color", "xterm-256color", "linux", "vt220", "vt100", "screen"}, 10, 5)
	p.Sim = rapid.IntRange(0, 5).Draw(t, "simscreen") == 0
	p.Pair = rapid.IntRange(0, 2).Draw(t, "pairmode") == 0
	p.Locale = rapid.SampledFrom([]string{"", "", "en_US.ISO8859-1", "", "zh_CN.GB2312", "ja_JP.ISO-2022-JP"}).Draw(t, "locale")
	p.Cfg.Locale = p.Locale
	focus := focusSets[rapid.IntRange(0, len(focusSets)-1).Draw(t, "focus")]
	na := rapid.IntRange(2, 4).Draw(t, "nactors")
	if p.Pair {
		na = 2
	}
	for i := 0; i < na; i++ {
		n := rapid.IntRange(1, 14).Draw(t, "nprog")
		if p.Pair {
			n = rapid.IntRange(1, 2).Draw(t, "npair")
		}
		var prog []call
		for j := 0; j < n; j++ {
			prog = append(prog, drawCall(t, focus))
		}
		p.Progs = append(p.Progs, prog)
	}
	ns := rapid.IntRange(0, 6).Draw(t, "nstim")
	for i := 0; i < ns; i++ {
		p.Stims = append(p.Stims, call{M: rapid.SampledFrom([]string{"input", "input", "resize", "quietresize", "pause", "writefault"}).Draw(t, "stim"), A: rapid.IntRange(1, 10).Draw(t, "sa"), B: rapid.IntRange(1, 5).Draw(t, "sb")})
	}
	p.Fini = rapid.IntRange(-2, na-1).Draw(t, "fini")
	return p
}

type rw struct {
	p      *plan
	s      *simrt.Sim
	scr    tcell.Screen
	sim    tcell.SimulationScreen
	tty    *hx.Tty
	T      *vt.Term
	fail   *hx.Failure
	lastW  string
	inited bool
	err    error
	pairs  map[string]bool
}

func (w *rw) failf(tag, format string, args ...interface{}) {
	if w.fail == nil {
		w.fail = &hx.Failure{Tag: tag, Msg: fmt.Sprintf(format, args...)}
	}
}

// hot maps half of the column arguments onto three columns, so that calls of
// different goroutines meet in the same cell often enough.
func hot(a, b int) int {
	if (a+b)%2 == 1 {
		return a % 3
	}
	return a
}

func (w *rw) do(c call, polling *bool) {
	sc := w.scr
	st := tcell.StyleDefault.Foreground(tcell.PaletteColor(c.A)).Bold(c.B%2 == 0)
	switch c.M {
	case "SetContent":
		var comb []rune
		if c.B%2 == 1 {
			comb = []rune{0x301, 0x308}[:1+c.A%2]
		}
		sc.SetContent(hot(c.A, c.B), c.B%2, rune('a'+c.A), comb, st)
	case "SetCell":
		sc.SetCell(hot(c.A, c.B), c.B%2, st, rune('A'+c.B), 0x301)
	case "GetContent":
		// the application looks at what it got back, after the call
		_, comb, _, _ := sc.GetContent(hot(c.A, c.B), c.B%2)
		simrt.Yield("use-result")
		tcell.VerifTouchRunes(comb)
	case "Fill":
		sc.Fill(rune('0'+c.A), st)
	case "Clear":
		sc.Clear()
	case "SetStyle":
		sc.SetStyle(st)
	case "ShowCursor":
		sc.ShowCursor(c.A, c.B)
	case "HideCursor":
		sc.HideCursor()
	case "SetCursorStyle":
		sc.SetCursorStyle(tcell.CursorStyle(c.A%7), tcell.PaletteColor(c.B))
	case "Size":
		sc.Size()
	case "EnableMouse":
		sc.EnableMouse(tcell.MouseFlags(c.A%8 + 1))
	case "DisableMouse":
		sc.DisableMouse()
	case "EnablePaste":
		sc.EnablePaste()
	case "DisablePaste":
		sc.DisablePaste()
	case "EnableFocus":
		sc.EnableFocus()
	case "DisableFocus":
		sc.DisableFocus()
	case "HasMouse":
		sc.HasMouse()
	case "Colors":
		sc.Colors()
	case "Show":
		sc.Show()
	case "Sync":
		sc.Sync()
	case "CharacterSet":
		sc.CharacterSet()
	case "RegisterRuneFallback":
		sc.RegisterRuneFallback(rune(0x2500+c.A), "+")
	case "UnregisterRuneFallback":
		sc.UnregisterRuneFallback(rune(0x2500 + c.A))
	case "CanDisplay":
		sc.CanDisplay(rune(0x2500+c.A), c.B%2 == 0)
	case "HasKey":
		sc.HasKey(tcell.KeyF1 + tcell.Key(c.A))
	case "Beep":
		_ = sc.Beep()
	case "SetSize":
		sc.SetSize(c.A+1, c.B+1)
	case "SetTitle":
		sc.SetTitle(fmt.Sprintf("t%d", c.A))
	case "SetClipboard":
		sc.SetClipboard([]byte("x"))
	case "GetClipboard":
		sc.GetClipboard()
	case "HasPendingEvent":
		sc.HasPendingEvent()
	case "PostEvent":
		_ = sc.PostEvent(tcell.NewEventInterrupt(c.A))
	case "PollEvent":
		if sc.HasPendingEvent() {
			sc.PollEvent()
		}
	case "LockRegion":
		sc.LockRegion(c.A, c.B, 2, 1, c.A%2 == 0)
	case "Tty":
		sc.Tty()
	case "Suspend":
		_ = sc.Suspend()
	case "Resume":
		_ = sc.Resume()
	}
}

// ---- race report handling ----

var logOff int64

func raceLog() string {
	p := os.Getenv("VERIF_RACE_LOG")
	if p == "" {
		return ""
	}
	m, _ := filepath.Glob(p + ".*")
	if len(m) == 0 {
		return ""
	}
	sort.Strings(m)
	b, err := os.ReadFile(m[len(m)-1])
	if err != nil {
		return ""
	}
	if int64(len(b)) < logOff {
		logOff = 0
	}
	s := string(b[logOff:])
	logOff = int64(len(b))
	return s
}

type report struct {
	tcellBoth bool
	key       string
	text      string
}

func topTcell(stack string) string {
	lines := strings.Split(stack, "\n")
	// the access itself must not be the harness's: the first frame that is
	// not runtime code decides
	for i, l := range lines {
		if i == 0 {
			continue // "Read at ... by goroutine N:"
		}
		l = strings.TrimSpace(l)
		if l == "" || strings.HasPrefix(l, "/") || strings.HasPrefix(l, "<autogenerated>") || strings.HasPrefix(l, "runtime.") {
			continue
		}
		if strings.HasPrefix(l, "verif.local/") {
			return ""
		}
		break
	}
	for _, l := range lines {
		l = strings.TrimSpace(l)
		if strings.HasPrefix(l, "github.com/gdamore/tcell/v2") {
			if i := strings.Index(l, "("); i > 0 && !strings.HasPrefix(l[i:], "(*") {
				l = l[:i]
			}
			l = strings.TrimPrefix(l, "github.com/gdamore/tcell/v2")
			if i := strings.LastIndex(l, "("); i > 0 && strings.HasSuffix(l, ")") && !strings.Contains(l[i:], "*") {
				l = l[:i]
			}
			return strings.TrimSuffix(l, "()")
		}
	}
	return ""
}

func parseReports(log string) []report {
	var out []report
	for _, blk := range strings.Split(log, "==================") {
		if !strings.Contains(blk, "DATA RACE") {
			continue
		}
		paras := strings.Split(strings.TrimSpace(blk), "\n\n")
		var stacks []string
		for _, p := range paras {
			pl := strings.ToLower(p)
			if strings.Contains(pl, " by goroutine ") || strings.Contains(pl, " by main goroutine") {
				stacks = append(stacks, p)
			}
		}
		r := report{text: blk}
		if len(stacks) >= 2 {
			a, b := topTcell(stacks[0]), topTcell(stacks[1])
			if a != "" && b != "" {
				r.tcellBoth = true
				ks := []string{a, b}
				sort.Strings(ks)
				r.key = ks[0] + " <-> " + ks[1]
			}
		}
		out = append(out, r)
	}
	return out
}

func runRace(t *rapid.T) {
	if hx.PastDeadline() {
		return
	}
	p := drawPlan(t)
	ch := hx.DrawChooser(t, 200)
	hx.Arm("C10")
	defer hx.Disarm()
	w := &rw{p: p}
	errsBefore := simrt.RaceErrors()
	raceLog() // skip anything already there
	var world *hx.World
	if p.Sim {
		ch.MapMode = 0
		os.Setenv("LC_ALL", "en_US.UTF-8")
		s := simrt.New(ch)
		if p.Cfg.GapScale > 0 {
			s.GapScale = p.Cfg.GapScale
		}
		w.s = s
		w.sim = tcell.NewSimulationScreen("")
		w.scr = w.sim
		w.tty = hx.NewTty(s, 1, 1)
	} else {
		var err error
		world, err = hx.NewWorld(p.Cfg, ch)
		if err != nil {
			t.Fatalf("HARNESS: %v", err)
		}
		w.s, w.scr, w.tty = world.S, world.Scr, world.Tty
		w.T = vt.New(p.Cfg.W, p.Cfg.H, nil)
		w.T.Lenient = true
		w.tty.OnFault = func(kind string) { w.T.AbortSequence() }
		w.tty.OnWrite = func(g string, b []byte) {
			if !w.T.InGround() && w.lastW != g {
				w.failf("C10/torn-show", "bytes written by %s arrive inside an unfinished control sequence written by %s: the output stream is interleaved", g, w.lastW)
			}
			w.lastW = g
			w.T.Write(b)
		}
	}
	s := w.s
	s.TraceOn = hx.Replaying()
	s.Note(hx.Fingerprint(*p))
	nact := len(p.Progs)
	done := make([]bool, nact)
	s.Spawn("init", func() {
		if err := w.scr.Init(); err != nil {
			w.err = err
			w.inited = true
			return
		}
		w.inited = true
		for i := range p.Progs {
			i := i
			simrt.Go(fmt.Sprintf("actor%d", i), func() {
				polling := false
				for _, c := range p.Progs[i] {
					w.do(c, &polling)
				}
				if p.Fini == i || (p.Fini == -2 && i < 2) {
					w.scr.Fini()
				}
				done[i] = true
			})
		}
		simrt.Go("poller", func() {
			for {
				ev := w.scr.PollEvent()
				if ev == nil {
					return
				}
				if ce, ok := ev.(*tcell.EventClipboard); ok {
					// the application looks at the payload a little later
					simrt.Yield("use-clipboard")
					tcell.VerifTouchBytes(ce.Data())
				}
			}
		})
		simrt.Go("term", func() {
			for _, st := range p.Stims {
				switch st.M {
				case "input":
					if w.sim != nil {
						switch st.B {
						case 1:
							w.sim.InjectMouse(st.A, st.B, tcell.Button1, 0)
						case 2:
							w.sim.InjectKeyBytes([]byte("k\x1b[A"))
						default:
							w.sim.InjectKey(tcell.KeyRune, rune('a'+st.A), 0)
						}
					} else {
						// every kind of report the input goroutines parse
						w.tty.Feed([]byte([]string{
							"k\x1b[A",
							fmt.Sprintf("\x1b[<0;%d;%dM\x1b[<0;%d;%dm", st.A*3, st.B*2, st.A*3, st.B*2), // SGR click
							"\x1b[M " + string([]byte{byte(32 + st.A*3), byte(32 + st.B*2)}),            // X11 press
							"\x1b[200~p\x1b[201~",     // bracketed paste
							"\x1b[I\x1b[O",            // focus
							"\x1b",                    // lone ESC: the escape timer decides
							"\x1b]52;c;Y2xpcA==\x07é", // OSC 52 reply, UTF-8
						}[(st.A+st.B)%7]))
					}
				case "resize":
					if w.sim != nil {
						w.sim.SetSize(st.A, st.B)
					} else {
						w.tty.Resize(st.A, st.B)
						w.tty.FireResize()
					}
				case "writefault":
					// the next frame is cut short by the tty (or fails outright)
					if w.sim == nil {
						if st.B%2 == 0 {
							w.tty.FailWrites = 1
						} else {
							w.tty.ShortWrite = st.A
						}
					}
				case "quietresize":
					// the window changes size without a signal: the next Show/Sync picks it up
					if w.sim == nil {
						w.tty.Resize(st.A, st.B)
					}
				case "pause":
					simrt.Sleep("term.pause", hx.Ms(st.A*7))
				}
				simrt.Yield("term.step")
			}
		})
		if p.Fini == -1 {
			simrt.Wait("all-done", func() bool {
				for _, d := range done {
					if !d {
						return false
					}
				}
				return true
			})
			w.scr.Fini()
		}
	})
	st := s.Run()
	if w.err != nil {
		s.Shutdown()
		t.Fatalf("HARNESS: Init: %v", w.err)
	}
	_ = st
	// panics and runtime faults in tcell code
	for _, g := range s.Goroutines() {
		if g.Panic != nil {
			w.failf("C10/panic", "panic in %s: %v\n%s", g.Name, g.Panic, g.PanicStack)
		}
	}
	// the library's own goroutines must be gone when Suspend/Fini hand the
	// terminal back: nothing they write may reach it between Stop and Start
	if w.tty != nil && w.sim == nil {
		started := false
		for _, c := range w.tty.Log {
			switch c.Kind {
			case "Start":
				if !c.Err {
					started = true
				}
			case "Stop":
				started = false
			case "Write":
				if !started && !c.Err && c.N > 0 {
					// (the library's own goroutines must be gone by then, and a
					// Screen call made while suspended writes nothing either: a
					// write here is a frame that was held across Suspend/Fini)
					w.failf("C10/write-after-stop", "tty call #%d: goroutine %s writes %d bytes to a terminal the screen has stopped (Suspend/Fini handed it back)", c.At, c.G, c.N)
				}
			}
		}
	}
	faults := map[string]int{"preempt_in_critical_section": s.Counters["select_multi_ready"]}
	if w.tty != nil {
		for k, v := range w.tty.Faults.Map() {
			faults[k] = v
		}
	}
	hx.St.Record(s, faults, func() interface{} {
		var progs []string
		for _, pr := range p.Progs {
			var ms []string
			for _, c := range pr {
				ms = append(ms, c.M)
			}
			progs = append(progs, strings.Join(ms, ","))
		}
		return map[string]interface{}{"config": p.Cfg.String(), "simscreen": p.Sim, "programs": progs, "fini": p.Fini, "decisions": s.Steps, "preemptions": s.Preempts}
	})
	if p.Pair && len(p.Progs) == 2 {
		for _, a := range p.Progs[0] {
			for _, b := range p.Progs[1] {
				ks := []string{a.M, b.M}
				sort.Strings(ks)
				hx.St.Probes["pair:"+ks[0]+"+"+ks[1]]++
			}
		}
	}
	tr, sig := s.Trace, s.Hash()
	if err := s.Shutdown(); err != nil {
		t.Fatalf("HARNESS: %v", err)
	}
	if n := simrt.RaceErrors() - errsBefore; n > 0 {
		reps := parseReports(raceLog())
		var keys []string
		first := ""
		other := 0
		for _, r := range reps {
			if r.tcellBoth {
				keys = append(keys, r.key)
				if first == "" {
					first = r.text
				}
			} else {
				other++
			}
		}
		if len(keys) > 0 {
			sort.Strings(keys)
			uniq := keys[:1]
			for _, k := range keys[1:] {
				if k != uniq[len(uniq)-1] {
					uniq = append(uniq, k)
				}
			}
			// the failure is named after the smallest key, so that shrinking
			// keeps one race rather than hopping between them
			w.failf("C10/race", "data race between %s (and %d more pairs in this run)\n%s", uniq[0], len(uniq)-1, trimReport(first))
		} else if other > 0 {
			hx.St.Probes["race_reports_without_tcell_frames_on_both_sides"] += other
		}
	}
	if w.fail != nil {
		var progs []string
		for _, pr := range p.Progs {
			progs = append(progs, fmt.Sprintf("%v", pr))
		}
		hx.WriteTrace("C10", w.fail, map[string]interface{}{"config": p.Cfg.String(), "simscreen": p.Sim, "programs": progs, "stimuli": fmt.Sprintf("%v", p.Stims), "fini": p.Fini}, tr, nil, sig)
		t.Fatalf("VIOLATION %s: %s", w.fail.Tag, w.fail.Msg)
	}
}

func trimReport(s string) string {
	var keep []string
	for _, l := range strings.Split(s, "\n") {
		if strings.Contains(l, "created at") {
			break
		}
		keep = append(keep, l)
		if len(keep) > 40 {
			break
		}
	}
	return strings.Join(keep, "\n")
}

func TestC10(t *testing.T) { rapid.Check(t, runRace) }
