package race

// TestConc is the -race stage of C15 and C09 (selected by VERIF_PROP): the
// clauses of those properties are stated per call and per screen, and must
// keep holding when several goroutines use the terminal description at the
// same time (two screens of one process drawing, an application expanding
// capability strings while a screen draws).  Under the serialising
// simulator a shared scratch buffer never actually tears, so the deciding
// oracle here is the race detector - the hand-off between simulated
// goroutines creates no happens-before edge, hence any package-level or
// per-description state that two calls touch without synchronisation is
// reported, whatever the interleaving - next to result equality with the
// sequential evaluation and the strict syntax check of each screen's stream.

import (
	"bytes"
	"fmt"
	"os"
	"sort"
	"strings"
	"testing"

	"github.com/gdamore/tcell/v2"
	"github.com/gdamore/tcell/v2/terminfo"
	"pgregory.net/rapid"
	"verif.local/hx"
	"verif.local/simrt"
	"verif.local/vt"
)

type tcall struct {
	Kind      string // goto color parm puts
	A, B      int
	Cap       string
	got, want string
}

func (c *tcall) eval(ti *terminfo.Terminfo) string {
	switch c.Kind {
	case "goto":
		return ti.TGoto(c.A, c.B)
	case "color":
		return ti.TColor(c.A, c.B)
	case "parm":
		return ti.TParm(c.Cap, c.A, c.B)
	default:
		var b bytes.Buffer
		ti.TPuts(&b, c.Cap)
		return b.String()
	}
}

func colorArg(n int) tcell.Color {
	if n < 0 {
		return tcell.ColorDefault
	}
	return tcell.PaletteColor(n)
}

// raceFailure returns the key and text of the first data race of this run
// in which both accesses are in library code.
func raceFailure(errsBefore int) (string, string) {
	if simrt.RaceErrors()-errsBefore <= 0 {
		return "", ""
	}
	var keys []string
	first := ""
	for _, r := range parseReports(raceLog()) {
		if r.tcellBoth {
			keys = append(keys, r.key)
			if first == "" {
				first = r.text
			}
		} else {
			hx.St.Probes["race_reports_without_tcell_frames_on_both_sides"]++
		}
	}
	if len(keys) == 0 {
		return "", ""
	}
	sort.Strings(keys)
	return keys[0], trimReport(first)
}

func capsOf(ti *terminfo.Terminfo) []string {
	var out []string
	for _, s := range []string{ti.SetFg, ti.SetBg, ti.SetFgBg, ti.SetCursor, ti.SetFgRGB, ti.SetBgRGB, ti.Clear, ti.AttrOff, ti.EnterCA, ti.PadChar + "x$<5>y", "a$<2/>b$<1*>c"} {
		if s != "" {
			out = append(out, s)
		}
	}
	return out
}

func runConcTerminfo(t *rapid.T, prop string) {
	names := hx.TermNames()
	term := rapid.SampledFrom(names).Draw(t, "term")
	ti := hx.Term(term, false)
	if ti == nil {
		t.Fatalf("HARNESS: unknown terminal %s", term)
	}
	caps := capsOf(ti)
	ng := rapid.IntRange(2, 3).Draw(t, "ngoroutines")
	progs := make([][]*tcall, ng)
	for g := range progs {
		n := rapid.IntRange(1, 8).Draw(t, "ncalls")
		for i := 0; i < n; i++ {
			c := &tcall{Kind: rapid.SampledFrom([]string{"goto", "goto", "color", "parm", "puts"}).Draw(t, "kind"),
				A: rapid.IntRange(-1, 300).Draw(t, "a"), B: rapid.IntRange(-1, 300).Draw(t, "b")}
			if c.Kind == "parm" || c.Kind == "puts" {
				c.Cap = rapid.SampledFrom(caps).Draw(t, "cap")
			}
			if c.Kind == "goto" && (c.A < 0 || c.B < 0) {
				c.A, c.B = 0, 0
			}
			progs[g] = append(progs[g], c)
		}
	}
	ch := hx.DrawChooser(t, 60)
	hx.Arm(prop + " conc")
	defer hx.Disarm()
	errsBefore := simrt.RaceErrors()
	raceLog()
	s := simrt.New(ch)
	s.TraceOn = hx.Replaying()
	var fp []string
	for _, pr := range progs {
		for _, c := range pr {
			fp = append(fp, fmt.Sprintf("%s/%d/%d/%q", c.Kind, c.A, c.B, c.Cap))
		}
		fp = append(fp, "|")
	}
	s.Note(hx.Fingerprint(term, fp))
	// the sequential evaluation (one goroutine, alone) is the reference
	s.Spawn("reference", func() {
		for _, pr := range progs {
			for _, c := range pr {
				c.want = c.eval(ti)
			}
		}
	})
	s.Run()
	for g := range progs {
		g := g
		s.Spawn(fmt.Sprintf("caller%d", g), func() {
			for _, c := range progs[g] {
				c.got = c.eval(ti)
				simrt.Yield("between-calls")
			}
		})
	}
	s.Run()
	var fail *hx.Failure
	for _, g := range s.Goroutines() {
		if g.Panic != nil && fail == nil {
			fail = &hx.Failure{Tag: prop + "/panic", Msg: fmt.Sprintf("panic in %s while expanding capability strings concurrently: %v\n%s", g.Name, g.Panic, g.PanicStack)}
		}
	}
	for g, pr := range progs {
		for i, c := range pr {
			if c.got != c.want && fail == nil && s.Find(fmt.Sprintf("caller%d", g)).Done() {
				fail = &hx.Failure{Tag: prop + "/conc-result", Msg: fmt.Sprintf("%s: call #%d of goroutine %d (%s %d,%d %q) returned %q concurrently, %q alone", term, i, g, c.Kind, c.A, c.B, c.Cap, c.got, c.want)}
			}
		}
	}
	hx.St.Record(s, map[string]int{"concurrent_terminfo_callers": ng}, func() interface{} {
		return map[string]interface{}{"term": term, "goroutines": ng, "decisions": s.Steps}
	})
	tr, sig := s.Trace, s.Hash()
	if err := s.Shutdown(); err != nil {
		t.Fatalf("HARNESS: %v", err)
	}
	if key, text := raceFailure(errsBefore); key != "" && fail == nil {
		fail = &hx.Failure{Tag: prop + "/race", Msg: fmt.Sprintf("%s: data race between concurrent capability-string expansions: %s\n%s", term, key, text)}
	}
	if fail != nil {
		hx.WriteTrace(prop, fail, map[string]interface{}{"term": term, "goroutines": ng}, tr, nil, sig)
		t.Fatalf("VIOLATION %s: %s", fail.Tag, fail.Msg)
	}
}

// runConcScreens: two terminfo screens of one process, each with its own
// tty and its own (strict) terminal, drawn by two goroutines.
func runConcScreens(t *rapid.T, prop string) {
	cfg := hx.DrawConfig(t, []string{"xterm-256color", "xterm", "linux", "vt220", "vt100", "screen", "rxvt", "ansi", "tmux", "alacritty"}, 8, 3)
	type dop struct {
		Kind  string
		X, Y  int
		R     rune
		Fg    int
		Attrs int
	}
	progs := make([][]dop, 2)
	for g := range progs {
		n := rapid.IntRange(2, 12).Draw(t, "nops")
		for i := 0; i < n; i++ {
			kinds := []string{"set", "set", "set", "show", "sync", "cursor", "register", "setstyle", "type"}
			if prop == "C11" {
				// mostly typing: the user of each screen types text while the other's does
				kinds = []string{"type", "type", "type", "type", "set", "show"}
			}
			progs[g] = append(progs[g], dop{Kind: rapid.SampledFrom(kinds).Draw(t, "dop"),
				X: rapid.IntRange(0, cfg.W-1).Draw(t, "x"), Y: rapid.IntRange(0, cfg.H-1).Draw(t, "y"),
				R:  rapid.SampledFrom([]rune{'a', 'Z', 0x2500, 0x4e00, 0xe9, ' ', 0x2592}).Draw(t, "r"),
				Fg: rapid.IntRange(-1, 255).Draw(t, "fg"), Attrs: rapid.IntRange(0, 63).Draw(t, "attrs")})
		}
		progs[g] = append(progs[g], dop{Kind: "show"})
	}
	ch := hx.DrawChooser(t, 120)
	hx.Arm(prop + " conc")
	defer hx.Disarm()
	errsBefore := simrt.RaceErrors()
	raceLog()
	world, err := hx.NewWorld(cfg, ch)
	if err != nil {
		t.Fatalf("HARNESS: %v", err)
	}
	s := world.S
	s.TraceOn = hx.Replaying()
	s.Note(hx.Fingerprint(cfg, progs))
	tty2 := hx.NewTty(s, cfg.W, cfg.H)
	scr2, err := tcell.NewTerminfoScreenFromTtyTerminfo(tty2, world.Ti)
	if err != nil {
		s.Shutdown()
		t.Fatalf("HARNESS: %v", err)
	}
	scrs := []tcell.Screen{world.Scr, scr2}
	ttys := []*hx.Tty{world.Tty, tty2}
	terms := []*vt.Term{vt.New(cfg.W, cfg.H, nil), vt.New(cfg.W, cfg.H, nil)}
	for i := range ttys {
		i := i
		terms[i].PCAlt = strings.Contains(world.Ti.EnterAcs, "\x1b[11m") || strings.Contains(world.Ti.EnterAcs, "\x1b[12m")
		ttys[i].OnWrite = func(g string, b []byte) { terms[i].Write(b) }
	}
	var initErr error
	inited := make([]bool, 2)
	typed := make([][]rune, 2)
	got := make([][]rune, 2)
	for g := range progs {
		g := g
		s.Spawn(fmt.Sprintf("app%d", g), func() {
			sc := scrs[g]
			if err := sc.Init(); err != nil {
				initErr = err
				inited[g] = true
				return
			}
			inited[g] = true
			// (started with a go statement after Init, as applications do:
			// Init happens before the first PollEvent)
			simrt.Go(fmt.Sprintf("poller%d", g), func() {
				for {
					ev := sc.PollEvent()
					if ev == nil {
						return
					}
					if k, ok := ev.(*tcell.EventKey); ok && k.Key() == tcell.KeyRune {
						got[g] = append(got[g], k.Rune())
					}
				}
			})
			for _, o := range progs[g] {
				st := tcell.StyleDefault.Foreground(colorArg(o.Fg)).Attributes(tcell.AttrMask(o.Attrs))
				switch o.Kind {
				case "set":
					sc.SetContent(o.X, o.Y, o.R, nil, st)
				case "show":
					sc.Show()
				case "sync":
					sc.Sync()
				case "cursor":
					sc.ShowCursor(o.X, o.Y)
				case "register":
					sc.RegisterRuneFallback(o.R, "+")
				case "setstyle":
					sc.SetStyle(st)
				case "type":
					// the user types a character (in the locale's character set, UTF-8)
					typed[g] = append(typed[g], o.R)
					ttys[g].Feed([]byte(string(o.R)))
				}
			}
			// everything typed so far is delivered before the application quits
			simrt.Wait("typed-delivered", func() bool { return len(got[g]) >= len(typed[g]) })
			sc.Fini()
		})
	}
	s.Run()
	if initErr != nil {
		s.Shutdown()
		t.Fatalf("HARNESS: Init: %v", initErr)
	}
	var fail *hx.Failure
	for _, g := range s.Goroutines() {
		if g.Panic != nil && fail == nil {
			fail = &hx.Failure{Tag: prop + "/panic", Msg: fmt.Sprintf("panic in %s while two screens draw concurrently: %v\n%s", g.Name, g.Panic, g.PanicStack)}
		}
	}
	for g := range typed {
		if string(got[g]) != string(typed[g]) && fail == nil {
			fail = &hx.Failure{Tag: prop + "/text", Msg: fmt.Sprintf("[%s] screen %d was sent %q while the other screen's user typed %q; it delivered %q", cfg.Term, g, string(typed[g]), string(typed[1-g]), string(got[g]))}
		}
	}
	for i, tm := range terms {
		if len(tm.Errors) > 0 && fail == nil {
			fail = &hx.Failure{Tag: prop + "/syntax", Msg: fmt.Sprintf("[%s] the terminal of screen %d rejected its output while the other screen was drawing: %s", cfg.Term, i, strings.Join(tm.Errors, "; "))}
		}
	}
	hx.St.Record(s, map[string]int{"concurrent_screens": 2}, func() interface{} {
		return map[string]interface{}{"config": cfg.String(), "screens": 2, "decisions": s.Steps}
	})
	tr, sig := s.Trace, s.Hash()
	if err := s.Shutdown(); err != nil {
		t.Fatalf("HARNESS: %v", err)
	}
	if key, text := raceFailure(errsBefore); key != "" && fail == nil {
		fail = &hx.Failure{Tag: prop + "/race", Msg: fmt.Sprintf("[%s] data race between two screens of one process: %s\n%s", cfg.Term, key, text)}
	}
	if fail != nil {
		hx.WriteTrace(prop, fail, map[string]interface{}{"config": cfg.String()}, tr, nil, sig)
		t.Fatalf("VIOLATION %s: %s", fail.Tag, fail.Msg)
	}
}

func TestConc(t *testing.T) {
	prop := os.Getenv("VERIF_PROP")
	rapid.Check(t, func(rt *rapid.T) {
		if hx.PastDeadline() {
			return
		}
		switch prop {
		case "C09", "C11":
			runConcScreens(rt, prop)
		case "C15":
			runConcTerminfo(rt, prop)
		default:
			if rapid.Bool().Draw(rt, "mode") {
				runConcScreens(rt, "C09")
			} else {
				runConcTerminfo(rt, "C15")
			}
		}
	})
}
