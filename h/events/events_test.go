// Package events is the deterministic-simulation harness for C05 (event
// delivery) and C06 (shutdown liveness and inertness).
package events

import (
	"encoding/json"
	"fmt"
	"os"
	"strings"
	"testing"
	"time"

	"github.com/gdamore/tcell/v2"
	tenc "github.com/gdamore/tcell/v2/encoding"
	"golang.org/x/text/encoding"
	"golang.org/x/text/encoding/charmap"
	"golang.org/x/text/encoding/japanese"
	"golang.org/x/text/encoding/simplifiedchinese"
	"pgregory.net/rapid"
	"verif.local/hx"
	"verif.local/simrt"
)

func TestMain(m *testing.M) {
	tenc.Register()
	code := m.Run()
	hx.St.Flush()
	os.Exit(code)
}

// ---------------------------------------------------------------- plan --

type tok struct {
	Kind string // rune key mouse paste focus
	B    []byte
	Want string
}

type termStep struct {
	Kind  string // input pause resize lateresize
	Toks  []tok
	Pause int // ms
	W, H  int
	Defer bool // resize: change the size now, deliver the callback in a later step
}

type pollStep struct {
	N     int
	Stall int // ms
	Check bool
}

type postStep struct {
	Wait  bool
	Pause int
}

type appStep struct {
	Kind string // draw show sync post pending size mouse
	X, Y int
}

type plan struct {
	Cfg       hx.Config
	Term      []termStep
	Poll      []pollStep
	Channel   bool // consume through ChannelEvents
	QuitFirst bool // channel mode: close quit before Fini
	Posters   [][]postStep
	App       []appStep
	ReadErr   int  // >=0: tty read fails after that many bytes
	ZeroReads int  // number of reads that return 0,nil
	DrainOnce bool // C06: the tty's Drain wakes the reader once instead of failing all reads
	WriteFail bool // C06: tty writes fail from the moment the shutdown call starts
	Shutdown  shutdownPlan
	// FiniHow (C05): how the final Fini finds the screen: 0 running,
	// 1 suspended, 2 suspended after a Resume whose tty start failed
	FiniHow int
	// PollCalls: the polling goroutine also calls Size()/SetContent after
	// each of its pauses (one goroutine that both draws and polls)
	PollCalls bool
}

type shutdownPlan struct {
	Kind       string // fini suspend suspend-resume-fini fini2 fini-concurrent
	FromSecond bool   // shutdown is called by another goroutine than the app actor
	ExtraInput []tok  // input fed right before shutdown with nobody polling
	Chunks     int    // max read size while feeding the extra input (0 = free)
	ErrDuring  bool   // tty read error while shutting down
	Delay      int    // ms of simulated quiet before the shutdown actor acts
	Settle     bool   // let the pipeline absorb the extra input first
}

// tokCharset is the character set of the plan being drawn ("" = UTF-8).
var tokCharset string

func drawTok(t *rapid.T, id int, w, h int) tok {
	switch rapid.IntRange(0, 11).Draw(t, "tokkind") {
	case 11:
		// an OSC 52 reply whose payload is not valid padded base64: no event,
		// and certainly no stall
		return tok{"junk", []byte("\x1b]52;c;YQ\x1b\\"), "?none"}
	case 10:
		// a release, then the same buttonless motion report twice (the
		// pointer reported again in the same cell): three events
		x, y := id%30+1, (id/3)%12+1
		m := fmt.Sprintf("mouse:%d,%d:%d:0", x-1, y-1, tcell.ButtonNone)
		return tok{"mouse", []byte(fmt.Sprintf("\x1b[<0;%d;%dm\x1b[<35;%d;%dM\x1b[<35;%d;%dM", x, y, x, y, x, y)), m + "|" + m + "|" + m}
	case 0, 1, 2, 3:
		r := rune('a' + id%26)
		return tok{"rune", []byte(string(r)), fmt.Sprintf("key:Rune:%c:0", r)}
	case 4:
		rs := []rune{'é', 'ж', '中', '😀', '€'}
		var enc encoding.Encoding
		switch tokCharset {
		case "ISO8859-1":
			rs, enc = []rune{'é', 'ü', 'ß', '£', '¿'}, charmap.ISO8859_1
		case "KOI8-R":
			rs, enc = []rune{'ж', 'я', 'б', 'Ю', '═'}, charmap.KOI8R
		case "GBK":
			rs, enc = []rune{'中', '你', '好', 'ж', '鷗'}, simplifiedchinese.GBK
		case "Shift_JIS":
			rs, enc = []rune{'日', '本', 'ア', '語', 'ｱ'}, japanese.ShiftJIS
		}
		r := rs[id%len(rs)]
		b := []byte(string(r))
		if enc != nil {
			// the terminal sends the character in the locale's character set
			eb, err := enc.NewEncoder().Bytes(b)
			if err != nil {
				panic(err)
			}
			b = eb
		}
		return tok{"rune", b, fmt.Sprintf("key:Rune:%c:0", r)}
	case 5:
		keys := []struct {
			b string
			k tcell.Key
		}{{"\x1b[A", tcell.KeyUp}, {"\x1bOB", tcell.KeyDown}, {"\x1bOP", tcell.KeyF1}, {"\x1b[3~", tcell.KeyDelete}, {"\x1b[1;5C", tcell.KeyRight}}
		k := keys[id%len(keys)]
		mod := 0
		if k.b == "\x1b[1;5C" {
			mod = int(tcell.ModCtrl)
		}
		return tok{"key", []byte(k.b), fmt.Sprintf("key:%d:%d", k.k, mod)}
	case 6, 7:
		x, y := id%30+1, (id/3)%12+1
		press := id%2 == 0
		fin, btn := 'M', tcell.Button1
		if !press {
			fin, btn = 'm', tcell.ButtonNone
		}
		cx, cy := x-1, y-1
		if cx > w-1 {
			cx = w - 1
		}
		if cy > h-1 {
			cy = h - 1
		}
		_ = cx
		_ = cy
		// position is checked modulo clipping at decode time (the size may
		// change through resizes); the raw report coordinates are kept.
		return tok{"mouse", []byte(fmt.Sprintf("\x1b[<0;%d;%d%c", x, y, fin)), fmt.Sprintf("mouse:%d,%d:%d:0", x-1, y-1, btn)}
	case 8:
		if id%2 == 0 {
			return tok{"paste", []byte("\x1b[200~"), "paste:true"}
		}
		return tok{"paste", []byte("\x1b[201~"), "paste:false"}
	default:
		if id%3 == 2 {
			// ESC directly followed by a mouse report: if the ESC yields an
			// Esc key at all, input order puts it before the report
			x, y := id%30+1, (id/3)%12+1
			return tok{"esc+mouse", []byte(fmt.Sprintf("\x1b\x1b[<0;%d;%dM", x, y)), fmt.Sprintf("?key:%d:0|mouse:%d,%d:%d:0", tcell.KeyEsc, x-1, y-1, tcell.Button1)}
		}
		if id%2 == 0 {
			return tok{"focus", []byte("\x1b[I"), "focus:true"}
		}
		return tok{"focus", []byte("\x1b[O"), "focus:false"}
	}
}

func drawPlan(t *rapid.T, mode string) *plan {
	p := &plan{ReadErr: -1}
	p.Cfg = hx.DrawConfig(t, []string{"xterm-256color", "xterm"}, 40, 15)
	p.Cfg.TrueColor = false
	// the locale's character set: typed text arrives in it
	tokCharset = rapid.SampledFrom([]string{"", "", "", "ISO8859-1", "KOI8-R", "GBK", "Shift_JIS"}).Draw(t, "charset")
	if tokCharset != "" {
		p.Cfg.Locale = "en_US." + tokCharset
	}
	id := 0
	nterm := rapid.IntRange(0, 14).Draw(t, "nterm")
	for i := 0; i < nterm; i++ {
		switch rapid.IntRange(0, 7).Draw(t, "termkind") {
		case 0, 1, 2, 3, 4:
			n := rapid.IntRange(1, 14).Draw(t, "ntok")
			st := termStep{Kind: "input"}
			for j := 0; j < n; j++ {
				st.Toks = append(st.Toks, drawTok(t, id, p.Cfg.W, p.Cfg.H))
				id++
			}
			p.Term = append(p.Term, st)
		case 5:
			p.Term = append(p.Term, termStep{Kind: "pause", Pause: rapid.SampledFrom([]int{0, 1, 10, 49, 50, 51, 200, 1000}).Draw(t, "pause")})
		default:
			p.Term = append(p.Term, termStep{Kind: "resize", W: rapid.IntRange(1, 40).Draw(t, "rw"), H: rapid.IntRange(1, 15).Draw(t, "rh")})
		}
	}
	npoll := rapid.IntRange(0, 8).Draw(t, "npoll")
	for i := 0; i < npoll; i++ {
		p.Poll = append(p.Poll, pollStep{
			N:     rapid.IntRange(0, 15).Draw(t, "polln"),
			Stall: rapid.SampledFrom([]int{0, 0, 1, 30, 60, 500, 5000}).Draw(t, "stall"),
			Check: rapid.Bool().Draw(t, "pendcheck"),
		})
	}
	if rapid.IntRange(0, 3).Draw(t, "zeroreads") == 0 {
		p.ZeroReads = rapid.IntRange(1, 5).Draw(t, "nzero")
	}
	p.Channel = rapid.IntRange(0, 3).Draw(t, "channel") == 0
	p.QuitFirst = rapid.Bool().Draw(t, "quitfirst")
	nposters := rapid.IntRange(0, 3).Draw(t, "nposters")
	for i := 0; i < nposters; i++ {
		var ps []postStep
		n := rapid.IntRange(1, 15).Draw(t, "nposts")
		for j := 0; j < n; j++ {
			ps = append(ps, postStep{Wait: rapid.Bool().Draw(t, "postwait"), Pause: rapid.SampledFrom([]int{0, 0, 0, 5, 100}).Draw(t, "postpause")})
		}
		p.Posters = append(p.Posters, ps)
	}
	napp := rapid.IntRange(0, 8).Draw(t, "napp")
	for i := 0; i < napp; i++ {
		p.App = append(p.App, appStep{
			Kind: rapid.SampledFrom(appKinds).Draw(t, "appkind"),
			X:    rapid.IntRange(0, 39).Draw(t, "ax"), Y: rapid.IntRange(0, 14).Draw(t, "ay"),
		})
	}
	if mode == "C06" {
		sd := &p.Shutdown
		sd.Kind = rapid.SampledFrom([]string{"fini", "fini", "suspend", "suspend-resume-fini", "fini2", "fini-concurrent", "suspend-resume-suspend",
			"suspend||resume", "suspend||suspend", "resume||fini", "startfail-resume-fini", "suspend-fini", "startfail-fini", "fini||fini-inert"}).Draw(t, "sdkind")
		sd.FromSecond = rapid.Bool().Draw(t, "sdsecond")
		n := rapid.IntRange(0, 30).Draw(t, "nextra")
		for j := 0; j < n; j++ {
			sd.ExtraInput = append(sd.ExtraInput, drawTok(t, id, p.Cfg.W, p.Cfg.H))
			id++
		}
		sd.Chunks = rapid.SampledFrom([]int{0, 1, 1, 2, 5}).Draw(t, "sdchunk")
		sd.Delay = rapid.SampledFrom([]int{0, 0, 1, 40, 100, 3000}).Draw(t, "sddelay")
		sd.Settle = rapid.Bool().Draw(t, "sdsettle")
		if rapid.IntRange(0, 5).Draw(t, "sderr") == 0 {
			sd.ErrDuring = true
		}
		if rapid.IntRange(0, 7).Draw(t, "readerr") == 0 {
			p.ReadErr = rapid.IntRange(0, 60).Draw(t, "readerrafter")
		}
		p.Cfg.Polling = rapid.IntRange(0, 5).Draw(t, "polling") == 0
		p.WriteFail = rapid.IntRange(0, 7).Draw(t, "writefail") == 0
		p.DrainOnce = !p.Cfg.Polling && rapid.IntRange(0, 5).Draw(t, "drainonce") == 0
	} else {
		p.Shutdown.Kind = "fini"
		p.FiniHow = rapid.SampledFrom([]int{0, 0, 0, 1, 1, 2}).Draw(t, "finihow")
		p.PollCalls = rapid.Bool().Draw(t, "pollcalls")
		if rapid.IntRange(0, 2).Draw(t, "midsuspend") == 0 {
			// one Suspend/Resume somewhere in the application's script
			at := rapid.IntRange(0, len(p.App)).Draw(t, "suspendat")
			st := appStep{Kind: "suspend-resume"}
			p.App = append(p.App[:at], append([]appStep{st}, p.App[at:]...)...)
		}
	}
	return p
}

// --------------------------------------------------------------- world --

type postID struct{ Poster, Seq int }

type delivery struct {
	Desc string
	At   time.Duration
	When time.Time
	Who  string
}

// appKinds are the application's step kinds; C05 runs add one Suspend/Resume
// at most (see drawPlan).
var appKinds = []string{"draw", "show", "sync", "post", "pending", "size", "mouse", "paste"}

type ew struct {
	holdFeed   bool
	inLoopCall bool // the polling goroutine is inside a (locking) Screen call
	*hx.World
	p       *plan
	mode    string
	inited  bool
	initErr error

	wantIn  []string        // expected input-derived events, in order
	fedAt   []time.Duration // when the bytes of wantIn[i] were fed
	gotIn   []delivery
	gotPost map[int][]int // poster -> delivered seqs in order
	postRes map[int][]bool
	postAt  map[postID]time.Duration
	resizes []delivery
	sizes   []struct {
		w, h int
		at   time.Duration
	}
	errors    int
	nilPoll   int
	chClosed  bool
	evch      chan tcell.Event
	evquit    chan struct{}
	feeding   bool
	consumers int

	calling   string
	runPhase  func() simrt.Status
	finied    bool
	suspended bool
	resumeErr error
	freshFrom int
}

func describe(ev tcell.Event) string {
	switch e := ev.(type) {
	case *tcell.EventKey:
		if e.Key() == tcell.KeyRune {
			return fmt.Sprintf("key:Rune:%c:%d", e.Rune(), e.Modifiers())
		}
		return fmt.Sprintf("key:%d:%d", e.Key(), e.Modifiers())
	case *tcell.EventMouse:
		x, y := e.Position()
		return fmt.Sprintf("mouse:%d,%d:%d:%d", x, y, e.Buttons(), e.Modifiers())
	case *tcell.EventPaste:
		return fmt.Sprintf("paste:%v", e.Start())
	case *tcell.EventFocus:
		return fmt.Sprintf("focus:%v", e.Focused)
	case *tcell.EventResize:
		w, h := e.Size()
		return fmt.Sprintf("resize:%dx%d", w, h)
	case *tcell.EventInterrupt:
		return fmt.Sprintf("interrupt:%v", e.Data())
	case *tcell.EventError:
		return "error:" + e.Error()
	case nil:
		return "nil"
	}
	return fmt.Sprintf("%T", ev)
}

// safeWhen calls ev.When(), turning a panic into a C05 failure.
func (w *ew) safeWhen(ev tcell.Event) (tm time.Time, ok bool) {
	defer func() {
		if r := recover(); r != nil {
			w.Failf("C05/when", "When() of delivered %T panics: %v", ev, r)
			ok = false
		}
	}()
	return ev.When(), true
}

func (w *ew) deliver(ev tcell.Event, who string) {
	now := w.S.Now()
	d := delivery{Desc: describe(ev), At: now, Who: who}
	if tm, ok := w.safeWhen(ev); ok {
		d.When = tm
	} else {
		d.When = simrt.Epoch.Add(now)
	}
	switch e := ev.(type) {
	case *tcell.EventInterrupt:
		id, ok := e.Data().(postID)
		if !ok {
			w.Failf("C05/dup", "delivered interrupt with foreign payload %v", e.Data())
			return
		}
		w.gotPost[id.Poster] = append(w.gotPost[id.Poster], id.Seq)
		if at, ok := w.postAt[id]; ok {
			w.checkWhen(d, at, "posted event "+d.Desc)
		}
	case *tcell.EventResize:
		w.resizes = append(w.resizes, d)
		ww, hh := e.Size()
		var since time.Duration = -1
		for _, sz := range w.sizes {
			if sz.w == ww && sz.h == hh {
				if since < 0 {
					since = sz.at
				}
			}
		}
		if since < 0 {
			w.Failf("C05/dup", "resize event %s reports a size the terminal never had", d.Desc)
		} else {
			w.checkWhen(d, since, d.Desc)
		}
	case *tcell.EventError:
		w.errors++
	default:
		w.gotIn = append(w.gotIn, d)
	}
}

func (w *ew) checkWhen(d delivery, cause time.Duration, what string) {
	lo, hi := simrt.Epoch.Add(cause), simrt.Epoch.Add(d.At)
	if d.When.Before(lo) || d.When.After(hi) {
		w.Failf("C05/when", "%s: When()=%v not within [cause %v, delivery %v]", what, d.When.Sub(simrt.Epoch), cause, d.At)
	}
}

func (w *ew) waitInit() bool {
	simrt.Wait("wait-init", func() bool { return w.inited })
	return w.initErr == nil
}

func (w *ew) pollOnce(who string, check bool) bool {
	g := w.S.Running()
	pend := false
	if check && w.consumers == 1 {
		pend = w.Scr.HasPendingEvent()
	}
	parks := g.Parks
	ev := w.Scr.PollEvent()
	if pend && g.Parks != parks {
		w.Failf("C05/pending", "HasPendingEvent() was true with a single consumer but the next PollEvent blocked")
	}
	if ev == nil {
		w.nilPoll++
		return false
	}
	w.deliver(ev, who)
	return true
}

func (w *ew) pollerActor() {
	if !w.waitInit() {
		return
	}
	w.consumers++
	defer func() { w.consumers-- }()
	if w.p.Channel {
		// consume through ChannelEvents: one forwarder for the whole run
		w.evch = make(chan tcell.Event, 2)
		w.evquit = make(chan struct{})
		simrt.Go("forwarder", func() { w.Scr.ChannelEvents(w.evch, w.evquit) })
	}
	for _, st := range w.p.Poll {
		for i := 0; i < st.N; i++ {
			if w.p.Channel {
				if !w.recvOnce("poller") {
					return
				}
			} else if !w.pollOnce("poller", st.Check) {
				return
			}
		}
		if st.Stall > 0 {
			w.Tty.Faults.Inc("stall_poller")
			simrt.Sleep("poller.stall", hx.Ms(st.Stall))
			if w.p.PollCalls {
				// an event loop that draws between polls: it comes back from
				// its pause with a call that takes the screen lock
				w.inLoopCall = true
				w.Scr.Size()
				w.Scr.SetContent(0, 0, 'p', nil, tcell.StyleDefault)
				w.inLoopCall = false
			}
		}
	}
}

// recvOnce takes one event from the ChannelEvents channel.
func (w *ew) recvOnce(who string) bool {
	ev, ok := simrt.Recv2("consumer.recv", (<-chan tcell.Event)(w.evch))
	if !ok {
		w.chClosed = true
		return false
	}
	if ev == nil {
		w.Failf("C05/dup", "ChannelEvents forwarded a nil event")
		return true
	}
	w.deliver(ev, who)
	return true
}

func (w *ew) drainer() {
	w.consumers++
	defer func() { w.consumers-- }()
	if w.p.Channel && w.evch != nil {
		for w.recvOnce("drainer") {
		}
		return
	}
	for w.pollOnce("drainer", true) {
	}
}

func (w *ew) posterActor(idx int) {
	if !w.waitInit() {
		return
	}
	for seq, st := range w.p.Posters[idx] {
		id := postID{idx, seq}
		w.postAt[id] = w.S.Now()
		ev := tcell.NewEventInterrupt(id)
		if st.Wait {
			w.Scr.PostEventWait(ev)
			w.postRes[idx] = append(w.postRes[idx], true)
		} else {
			me := w.S.Running()
			parks := me.Parks
			err := w.Scr.PostEvent(ev)
			if me.Parks != parks {
				// PostEvent never waits: it enqueues or reports a full queue
				w.Failf("C05/post-blocked", "PostEvent of poster %d blocked (it must either enqueue or return ErrEventQFull at once); it returned %v", idx, err)
			}
			if err != nil && err != tcell.ErrEventQFull {
				w.Failf("C05/post-full", "PostEvent returned unexpected error %v", err)
			}
			w.postRes[idx] = append(w.postRes[idx], err == nil)
			if err != nil {
				w.S.Count("post_queue_full")
			}
		}
		if st.Pause > 0 {
			simrt.Sleep("poster.pause", hx.Ms(st.Pause))
		}
	}
}

func (w *ew) feed(toks []tok) {
	// (no input arrives while the application suspends the screen: see the
	// "suspend-resume" step)
	simrt.Wait("feed-allowed", func() bool { return !w.holdFeed })
	var b []byte
	for _, tk := range toks {
		b = append(b, tk.B...)
		for _, want := range strings.Split(tk.Want, "|") {
			w.wantIn = append(w.wantIn, want)
			w.fedAt = append(w.fedAt, w.S.Now())
		}
	}
	w.Tty.Feed(b)
}

func (w *ew) termActor() {
	if !w.waitInit() {
		return
	}
	for _, st := range w.p.Term {
		switch st.Kind {
		case "input":
			w.feed(st.Toks)
			simrt.Yield("term.fed")
		case "pause":
			simrt.Sleep("term.pause", hx.Ms(st.Pause))
		case "resize":
			w.resize(st.W, st.H)
		}
	}
}

func (w *ew) resize(nw, nh int) {
	w.Tty.Resize(nw, nh)
	w.sizes = append(w.sizes, struct {
		w, h int
		at   time.Duration
	}{nw, nh, w.S.Now()})
	w.Tty.Faults.Inc("resize")
	simrt.Yield("term.resized")
	w.Tty.FireResize()
}

func (w *ew) appActor() {
	w.sizes = append(w.sizes, struct {
		w, h int
		at   time.Duration
	}{w.Cfg.W, w.Cfg.H, w.S.Now()})
	if err := w.Scr.Init(); err != nil {
		w.initErr = err
		w.inited = true
		return
	}
	w.inited = true
	seq := 1000
	for _, st := range w.p.App {
		switch st.Kind {
		case "draw":
			w.Scr.SetContent(st.X, st.Y, 'x', nil, tcell.StyleDefault)
		case "show":
			w.Scr.Show()
		case "sync":
			w.Scr.Sync()
		case "pending":
			_ = w.Scr.HasPendingEvent()
		case "size":
			_, _ = w.Scr.Size()
		case "mouse":
			w.Scr.EnableMouse()
		case "paste":
			w.Scr.EnablePaste()
		case "post":
			id := postID{99, seq}
			seq++
			w.postAt[id] = w.S.Now()
			err := w.Scr.PostEvent(tcell.NewEventInterrupt(id))
			w.postRes[99] = append(w.postRes[99], err == nil)
		case "suspend-resume":
			// The terminal is lent to another program for a moment.  Input
			// that has not been decoded and queued by then is lost with the
			// suspension (and the harness flushes what is still upstream, so
			// that no sequence is cut in half); events already queued - and
			// every PostEvent that was accepted - must still be delivered.
			w.holdFeed = true
			for i := len(w.gotIn); i < len(w.wantIn); i++ {
				if !strings.HasPrefix(w.wantIn[i], "?") {
					w.wantIn[i] = "?" + w.wantIn[i]
				}
			}
			_ = w.Scr.Suspend()
			w.Tty.Discard()
			if kc := tcell.VerifKeychan(w.Scr); kc != nil {
				for len(kc) > 0 {
					<-kc
				}
			}
			w.Tty.Faults.Inc("suspend_resume")
			if err := w.Scr.Resume(); err != nil {
				w.Failf("C05/lost", "Resume failed: %v", err)
			}
			w.holdFeed = false
		}
	}
}

// mouseMatch compares a delivered mouse description with the expected one
// modulo clipping into some size the screen had.
func (w *ew) inputMatches(want, got string) bool {
	if want == got {
		return true
	}
	if !strings.HasPrefix(want, "mouse:") || !strings.HasPrefix(got, "mouse:") {
		return false
	}
	var wx, wy, wb, wm, gx, gy, gb, gm int
	fmt.Sscanf(want, "mouse:%d,%d:%d:%d", &wx, &wy, &wb, &wm)
	fmt.Sscanf(got, "mouse:%d,%d:%d:%d", &gx, &gy, &gb, &gm)
	if wb != gb || wm != gm {
		return false
	}
	for _, sz := range w.sizes {
		cx, cy := wx, wy
		if cx > sz.w-1 {
			cx = sz.w - 1
		}
		if cy > sz.h-1 {
			cy = sz.h - 1
		}
		if cx == gx && cy == gy {
			return true
		}
	}
	return false
}

// checkLedger reconciles causes and deliveries.  complete says every event
// must have been delivered (the queue was drained at quiescence).
func (w *ew) checkLedger(complete bool) {
	// expected entries starting with '?' are optional (may be absent, but
	// if present they must be in this position)
	// With optional entries a greedy walk can pair a delivered event with an
	// optional expectation that merely looks the same as a later mandatory
	// one: decide by dynamic programming whether SOME order-preserving
	// pairing covers every delivered event and every mandatory expectation
	// (up to the last delivered event, or to the end when complete).
	hasOpt := false
	for _, x := range w.wantIn {
		if strings.HasPrefix(x, "?") {
			hasOpt = true
		}
	}
	if hasOpt {
		nw, ng := len(w.wantIn), len(w.gotIn)
		reach := make([][]int8, nw+1) // 0 no, 1 via skip, 2 via match
		for i := range reach {
			reach[i] = make([]int8, ng+1)
		}
		reach[0][0] = 1
		for wi := 0; wi < nw; wi++ {
			opt := strings.HasPrefix(w.wantIn[wi], "?")
			want := strings.TrimPrefix(w.wantIn[wi], "?")
			for gi := 0; gi <= ng; gi++ {
				if reach[wi][gi] == 0 {
					continue
				}
				if gi < ng && w.inputMatches(want, w.gotIn[gi].Desc) && reach[wi+1][gi+1] == 0 {
					reach[wi+1][gi+1] = 2
				}
				if opt && reach[wi+1][gi] == 0 {
					reach[wi+1][gi] = 1
				}
			}
		}
		end := -1
		for wi := nw; wi >= 0; wi-- {
			if reach[wi][ng] == 0 {
				continue
			}
			ok := true
			if complete {
				for k := wi; k < nw; k++ {
					if !strings.HasPrefix(w.wantIn[k], "?") {
						ok = false
					}
				}
			}
			if ok {
				end = wi
				break
			}
		}
		if end >= 0 {
			// walk one pairing back for the When() bounds
			wi, gi := end, ng
			for wi > 0 {
				if reach[wi][gi] == 2 {
					w.checkWhen(w.gotIn[gi-1], w.fedAt[wi-1], "input event "+w.gotIn[gi-1].Desc)
					gi--
				}
				wi--
			}
			w.checkPosts(complete)
			return
		}
		// no pairing exists: fall through to the greedy walk for the diagnosis
	}
	gi := 0
	missing := ""
	for wi := 0; wi < len(w.wantIn); wi++ {
		want := w.wantIn[wi]
		opt := strings.HasPrefix(want, "?")
		want = strings.TrimPrefix(want, "?")
		if gi < len(w.gotIn) && w.inputMatches(want, w.gotIn[gi].Desc) {
			w.checkWhen(w.gotIn[gi], w.fedAt[wi], "input event "+w.gotIn[gi].Desc)
			gi++
			continue
		}
		if opt {
			continue
		}
		if gi >= len(w.gotIn) {
			if missing == "" {
				missing = want
			}
			continue
		}
		tag := "C05/order"
		if wi+1 < len(w.wantIn) && w.inputMatches(strings.TrimPrefix(w.wantIn[wi+1], "?"), w.gotIn[gi].Desc) {
			tag = "C05/lost"
		} else if wi > 0 && w.inputMatches(strings.TrimPrefix(w.wantIn[wi-1], "?"), w.gotIn[gi].Desc) {
			tag = "C05/dup"
		}
		w.Failf(tag, "input event #%d: expected %s, delivered %s (sent %d, delivered %d)", gi, want, w.gotIn[gi].Desc, len(w.wantIn), len(w.gotIn))
		missing = ""
		gi = len(w.gotIn)
		break
	}
	if gi < len(w.gotIn) && w.Fail == nil {
		w.Failf("C05/dup", "delivered %d input events, more than were sent; extra: %v", len(w.gotIn), w.gotIn[gi].Desc)
	}
	if complete && missing != "" {
		var gd []string
		for _, g := range w.gotIn {
			gd = append(gd, g.Desc)
		}
		w.Failf("C05/lost", "only %d input events were delivered after the queue was drained; first missing %s (expected %v, delivered %v)", len(w.gotIn), missing, w.wantIn, gd)
	}
	w.checkPosts(complete)
}

// checkPosts: every accepted PostEvent is delivered exactly once, in
// per-goroutine order.
func (w *ew) checkPosts(complete bool) {
	for poster, res := range w.postRes {
		var want []int
		base := 0
		if poster == 99 {
			base = 1000
		}
		for seq, ok := range res {
			if ok {
				want = append(want, base+seq)
			}
		}
		got := w.gotPost[poster]
		k := len(got)
		if k > len(want) {
			w.Failf("C05/post-full", "poster %d: %d events delivered but only %d posts were accepted (got %v, accepted %v)", poster, len(got), len(want), got, want)
			k = len(want)
		}
		for i := 0; i < k; i++ {
			if got[i] != want[i] {
				w.Failf("C05/post-nil", "poster %d: delivery #%d is seq %d, expected seq %d (accepted %v, delivered %v)", poster, i, got[i], want[i], want, got)
				break
			}
		}
		if complete && len(got) < len(want) {
			w.Failf("C05/post-nil", "poster %d: PostEvent returned nil for %d events but only %d were delivered", poster, len(want), len(got))
		}
	}
	for poster := range w.gotPost {
		if _, ok := w.postRes[poster]; !ok {
			w.Failf("C05/dup", "events delivered for unknown poster %d", poster)
		}
	}
}

// ----------------------------------------------------------------- run --

func run(t *rapid.T, mode string) {
	if hx.PastDeadline() {
		return
	}
	p := drawPlan(t, mode)
	ch := hx.DrawChooser(t, 150)
	hx.Arm(mode)
	defer hx.Disarm()
	world, err := hx.NewWorld(p.Cfg, ch)
	if err != nil {
		t.Fatalf("HARNESS: %v", err)
	}
	w := &ew{World: world, p: p, mode: mode, gotPost: map[int][]int{}, postRes: map[int][]bool{}, postAt: map[postID]time.Duration{}}
	w.S.TraceOn = hx.Replaying()
	if p.ReadErr >= 0 {
		w.Tty.ReadErr = hx.ErrInjected
		w.Tty.ErrAfter = p.ReadErr
	}
	w.Tty.ZeroReads = p.ZeroReads
	w.Tty.DrainOnce = p.DrainOnce
	w.S.Note(hx.Fingerprint(*p))
	s := w.S
	// a polling tty never lets the system go quiet: bound each phase by
	// simulated time instead (closed-system liveness bound: 30 s)
	runPhase := func() simrt.Status {
		if p.Cfg.Polling {
			return s.RunUntil(nil, s.Now()+30*time.Second)
		}
		return s.Run()
	}
	w.runPhase = runPhase
	s.Spawn("app", w.appActor)
	s.Spawn("poller", w.pollerActor)
	for i := range p.Posters {
		i := i
		s.Spawn(fmt.Sprintf("poster%d", i), func() { w.posterActor(i) })
	}
	s.Spawn("term", w.termActor)
	var sd *simrt.G
	if mode == "C06" {
		sd = s.Spawn("shutdown", w.shutdownActor)
	}

	st := runPhase()
	inconclusive := false
	if st == simrt.Budget && mode != "C06" {
		inconclusive = true
		hx.St.Probe("phase1_budget", 1)
	}
	if w.initErr != nil {
		t.Fatalf("HARNESS: Init failed: %v", w.initErr)
	}
	if !inconclusive && mode == "C05" && w.inLoopCall && st == simrt.Quiescent {
		// nothing can run any more, and the goroutine that polls is stuck in a
		// Screen call: the library is waiting (with the screen lock) for the
		// application to poll, the application for the lock
		w.Failf("C05/backpressure-deadlock", "the event loop is blocked in Size()/SetContent while the input pipeline waits for it to poll: %v", s.Blocked())
	}
	if !inconclusive {
		if mode == "C05" {
			w.phaseDrain()
		} else {
			w.phaseAfterShutdown(sd, st)
		}
	}
	for _, pn := range w.Panics() {
		tag := mode + "/panic"
		w.Failf(tag, "panic in simulated goroutine: %s", pn)
	}
	hx.St.Record(s, w.Tty.Faults.Map(), func() interface{} { return w.sample() })
	fail := w.Fail
	trace := s.Trace
	blocked := s.Blocked()
	if err := w.Close(); err != nil {
		t.Fatalf("HARNESS: %v", err)
	}
	if fail != nil && strings.HasPrefix(fail.Tag, mode+"/") {
		hx.WriteTrace(mode, fail, p, trace, blocked, s.Hash())
		t.Fatalf("VIOLATION %s: %s", fail.Tag, fail.Msg)
	} else if fail != nil {
		hx.St.Probe("other_property_failure:"+fail.Tag, 1)
	}
}

func (w *ew) sample() interface{} {
	return map[string]interface{}{
		"config": w.Cfg.String(), "term_steps": len(w.p.Term), "input_events": len(w.wantIn),
		"delivered": len(w.gotIn), "posters": len(w.p.Posters), "shutdown": w.p.Shutdown.Kind,
		"decisions": w.S.Steps, "switches": w.S.Switches, "preemptions": w.S.Preempts,
		"faults": w.Tty.Faults.Map(), "signature": fmt.Sprintf("%x", w.S.Hash()),
	}
}

func (w *ew) phaseDrain() {
	s := w.S
	if w.Tty.ReadErr == nil && w.p.ReadErr < 0 {
		// fault-free: drain and require completeness
		s.Spawn("drainer", w.drainer)
		if st := w.runPhase(); st == simrt.Budget {
			hx.St.Probe("phase2_budget", 1)
			return
		}
		w.checkLedger(true)
	} else {
		w.checkLedger(false)
	}
	if w.p.Channel && w.evch != nil && w.p.QuitFirst {
		// everything is delivered and the forwarder idles: closing quit must
		// make it return and close the channel.
		q := s.Spawn("quitter", func() { simrt.Close("consumer.quit", (chan<- struct{})(w.evquit)) })
		s.Run()
		if f := s.Find("forwarder"); !q.Done() || (f != nil && !f.Done()) || !w.chClosed {
			w.Failf("C05/channel-close", "ChannelEvents did not return and close its channel after quit was closed: %v", s.Blocked())
		}
	}
	// Fini: the drainer must get nil / a closed channel.
	if w.p.Channel && w.evch != nil && !w.p.QuitFirst && w.p.FiniHow == 0 && w.p.PollCalls {
		// the consumer steps away while more events arrive: the forwarder ends
		// up holding one, blocked on the application's channel, when Fini comes
		if d := s.Find("drainer"); d != nil && !d.Done() {
			s.Stall(d)
			po := s.Spawn("late-poster", func() {
				for i := 0; i < 5; i++ {
					_ = w.Scr.PostEvent(tcell.NewEventInterrupt(postID{97, i}))
				}
			})
			s.Run()
			_ = po
			fb := s.Spawn("finisher", func() { w.Scr.Fini() })
			s.Run()
			s.Unstall(d)
			s.Run()
			w.Tty.Faults.Inc("fini_with_forwarder_blocked")
			if !fb.Done() {
				w.Failf("C06/deadlock/fini", "Fini did not return while the ChannelEvents forwarder was blocked: %v", s.Blocked())
				return
			}
			if !d.Done() || !w.chClosed {
				w.Failf("C05/channel-close", "Fini arrived while ChannelEvents was handing an event to a consumer that was away; when the consumer came back the channel was never closed: %v", s.Blocked())
			}
			return
		}
	}
	fin := s.Spawn("finisher", func() {
		if w.p.FiniHow >= 1 {
			_ = w.Scr.Suspend()
		}
		if w.p.FiniHow == 2 {
			w.Tty.StartFailAt = w.Tty.Starts + 1
			_ = w.Scr.Resume()
		}
		w.Scr.Fini()
	})
	s.Run()
	if !fin.Done() {
		w.Failf("C06/deadlock/fini", "Fini did not return: %v", s.Blocked())
		return
	}
	if d := s.Find("drainer"); d != nil && !d.Done() {
		if w.p.Channel {
			w.Failf("C05/channel-close", "ChannelEvents did not close its channel on Fini: %v", s.Blocked())
		} else {
			w.Failf("C06/poll-after-fini", "PollEvent still blocked after Fini: %v", s.Blocked())
		}
	}
	if w.p.Channel && !w.chClosed && w.Fail == nil {
		w.Failf("C05/channel-close", "consumer never saw the ChannelEvents channel closed after Fini")
	}
}

// ------------------------------------------------------------ shutdown --

func (w *ew) call(name string, f func()) {
	w.S.Note("call " + name)
	w.calling = name
	f()
	w.calling = ""
	w.S.Note("returned " + name)
}

func (w *ew) shutdownActor() {
	if !w.waitInit() {
		return
	}
	sd := w.p.Shutdown
	simrt.Sleep("shutdown.delay", hx.Ms(sd.Delay))
	if len(sd.ExtraInput) > 0 {
		w.Tty.MaxReadChunk = sd.Chunks
		w.feed(sd.ExtraInput)
		if sd.Settle {
			simrt.Sleep("shutdown.settle", hx.Ms(1))
		}
	}
	if q, k := tcell.VerifEventQ(w.Scr), tcell.VerifKeychan(w.Scr); q != nil && k != nil {
		w.S.Count(fmt.Sprintf("fill eventQ=%d/%d keychan=%d/%d", len(q), cap(q), len(k), cap(k)))
		if len(q) == cap(q) {
			w.S.Count("shutdown_with_eventQ_full")
		}
		if len(k) == cap(k) {
			w.S.Count("shutdown_with_keychan_full")
		}
	}
	if sd.ErrDuring {
		w.Tty.ReadErr = hx.ErrInjected
		w.Tty.ErrAfter = 0
	}
	if w.p.WriteFail {
		w.Tty.WriteFail = true // liveness only: the restore sequences are lost
	}
	switch sd.Kind {
	case "fini":
		w.call("fini", w.Scr.Fini)
		w.finied = true
	case "fini2":
		w.call("fini", w.Scr.Fini)
		w.finied = true
		w.call("fini", w.Scr.Fini)
	case "fini-concurrent":
		other := false
		simrt.Go("fini-b", func() { w.Scr.Fini(); other = true })
		w.call("fini", w.Scr.Fini)
		w.finied = true
		simrt.Wait("fini-b.join", func() bool { return other })
	case "suspend":
		w.call("suspend", func() { _ = w.Scr.Suspend() })
		w.suspended = true
	case "suspend-resume-fini":
		w.call("suspend", func() { _ = w.Scr.Suspend() })
		w.call("resume", func() { w.resumeErr = w.Scr.Resume() })
		w.call("fini", w.Scr.Fini)
		w.finied = true
	case "suspend||resume":
		// a Resume from another goroutine lands while Suspend is in progress
		other := false
		simrt.Go("resume-b", func() { _ = w.Scr.Resume(); other = true })
		w.call("suspend", func() { _ = w.Scr.Suspend() })
		simrt.Wait("resume-b.join", func() bool { return other })
		w.call("fini", w.Scr.Fini)
		w.finied = true
	case "suspend||suspend":
		other := false
		simrt.Go("suspend-b", func() { _ = w.Scr.Suspend(); other = true })
		w.call("suspend", func() { _ = w.Scr.Suspend() })
		simrt.Wait("suspend-b.join", func() bool { return other })
		w.suspended = true
	case "resume||fini":
		w.call("suspend", func() { _ = w.Scr.Suspend() })
		other := false
		simrt.Go("resume-b", func() { _ = w.Scr.Resume(); other = true })
		w.call("fini", w.Scr.Fini)
		w.finied = true
		simrt.Wait("resume-b.join", func() bool { return other })
	case "startfail-resume-fini":
		// the tty fails to start once: the screen must stay suspended, a
		// retried Resume must work, and Fini must still be clean
		w.call("suspend", func() { _ = w.Scr.Suspend() })
		w.Tty.StartFailAt = w.Tty.Starts + 1
		var err1 error
		w.call("resume", func() { err1 = w.Scr.Resume() })
		if err1 == nil {
			w.Failf("C06/resume-dead", "Resume returned nil although the tty failed to start")
		}
		w.call("resume", func() { w.resumeErr = w.Scr.Resume() })
		if w.resumeErr != nil {
			w.Failf("C06/resume-dead", "Resume after a failed start of the tty keeps failing: %v", w.resumeErr)
		}
		w.call("fini", w.Scr.Fini)
		w.finied = true
	case "suspend-fini":
		// Fini finds the screen suspended
		w.call("suspend", func() { _ = w.Scr.Suspend() })
		w.call("fini", w.Scr.Fini)
		w.finied = true
	case "startfail-fini":
		// Fini finds the screen suspended after a Resume that failed
		w.call("suspend", func() { _ = w.Scr.Suspend() })
		w.Tty.StartFailAt = w.Tty.Starts + 1
		w.call("resume", func() { _ = w.Scr.Resume() })
		w.call("fini", w.Scr.Fini)
		w.finied = true
	case "fini||fini-inert":
		// two overlapping Fini calls: whichever returns first, the screen
		// is finalized at that moment (a second Fini waits for the first)
		firstBack := ""
		check := func(who string) {
			if firstBack != "" {
				return
			}
			firstBack = who
			for _, g := range w.LibGoroutines() {
				if !g.Done() {
					w.Failf("C06/leak", "Fini (%s of two overlapping calls) returned while library goroutine %s is still alive: %v", who, g.Name, w.S.Blocked())
				}
			}
			if !w.Tty.Closed || w.Tty.Started {
				w.Failf("C06/double-fini", "Fini (%s of two overlapping calls) returned before the tty was stopped and closed (started=%v closed=%v)", who, w.Tty.Started, w.Tty.Closed)
			}
		}
		other := false
		simrt.Go("fini-b", func() { w.Scr.Fini(); check("the second"); other = true })
		w.call("fini", w.Scr.Fini)
		check("the first")
		w.finied = true
		simrt.Wait("fini-b.join", func() bool { return other })
	case "suspend-resume-suspend":
		w.call("suspend", func() { _ = w.Scr.Suspend() })
		w.call("resume", func() { w.resumeErr = w.Scr.Resume() })
		simrt.Sleep("between", hx.Ms(sd.Delay))
		w.call("suspend", func() { _ = w.Scr.Suspend() })
		w.suspended = true
	}
}

func (w *ew) phaseAfterShutdown(sd *simrt.G, st simrt.Status) {
	s := w.S
	if !sd.Done() {
		call := w.calling
		if call == "" {
			call = "harness"
		}
		if st == simrt.Budget {
			w.Failf("C06/no-progress/"+call, "%s still running after %d decisions: %v", call, s.Steps, s.Blocked())
		} else {
			w.Failf("C06/deadlock/"+call, "%s never returns: nothing can run, no timer pending; waiting: %v", call, s.Blocked())
		}
		return
	}
	if st == simrt.Budget {
		hx.St.Probe("phase1_budget", 1)
		return
	}
	if w.suspended {
		// while suspended nothing of the library may be running
		for _, g := range w.LibGoroutines() {
			if !g.Done() {
				w.Failf("C06/leak", "library goroutine %s still alive after Suspend returned: %v", g.Name, s.Blocked())
			}
		}
		// Resume: a fresh key and a fresh resize must arrive.
		nw, nh := w.Tty.W%40+1, w.Tty.H%15+1
		res := s.Spawn("resumer", func() {
			w.Tty.ReadErr = nil // no further read faults: delivery must work from here on
			w.call("resume", func() { w.resumeErr = w.Scr.Resume() })
			w.freshFrom = len(w.gotIn)
			w.Tty.ReadErr = nil
			// resize events are dropped by design when the queue is full:
			// let the consumer catch up before testing fresh delivery.
			q, k := tcell.VerifEventQ(w.Scr), tcell.VerifKeychan(w.Scr)
			simrt.Wait("queues-empty", func() bool { return len(q) == 0 && len(k) == 0 && w.Tty.Pending() == 0 })
			simrt.Sleep("settle", hx.Ms(200))
			w.Tty.Feed([]byte("Z"))
			w.resize(nw, nh)
		})
		s.Spawn("drainer", w.drainer)
		if w.runPhase() == simrt.Budget {
			hx.St.Probe("phase2_budget", 1)
			return
		}
		if !res.Done() {
			if w.calling == "resume" {
				w.Failf("C06/deadlock/resume", "Resume after Suspend never returns: %v", s.Blocked())
			} else {
				w.Failf("C06/resume-dead", "after Resume the input pipeline never drains: %v", s.Blocked())
			}
			return
		}
		if w.resumeErr != nil {
			w.Failf("C06/resume-dead", "Resume failed: %v", w.resumeErr)
			return
		}
		gotKey := false
		for _, d := range w.gotIn {
			if d.Desc == "key:Rune:Z:0" {
				gotKey = true
			}
		}
		if !gotKey {
			w.Failf("C06/resume-dead", "a key typed after Resume was never delivered (delivered %d input events); waiting: %v", len(w.gotIn), s.Blocked())
		}
		gotSz := false
		want := fmt.Sprintf("resize:%dx%d", nw, nh)
		for _, d := range w.resizes {
			if d.Desc == want {
				gotSz = true
			}
		}
		if !gotSz {
			w.Failf("C06/resume-dead", "a resize to %dx%d after Resume was never delivered; resizes seen %d", nw, nh, len(w.resizes))
		}
		fin := s.Spawn("finisher", func() { w.call("fini", w.Scr.Fini) })
		w.runPhase()
		if !fin.Done() {
			w.Failf("C06/deadlock/fini", "Fini never returns: %v", s.Blocked())
			return
		}
		w.finied = true
	}
	if !w.finied {
		return
	}
	// ---- inertness after Fini ----
	for _, g := range w.LibGoroutines() {
		if !g.Done() {
			w.Failf("C06/leak", "library goroutine %s still alive after Fini returned: %v", g.Name, s.Blocked())
		}
	}
	for _, g := range s.Goroutines() {
		if (g.Name == "poller" || g.Name == "drainer" || strings.HasPrefix(g.Name, "poster")) && !g.Done() {
			w.Failf("C06/poll-after-fini", "%s is still blocked in a Screen call after Fini returned: %v", g.Name, s.Blocked())
		}
		if strings.HasPrefix(g.Name, "forwarder") && !g.Done() {
			w.Failf("C06/poll-after-fini", "ChannelEvents goroutine still running after Fini: %v", s.Blocked())
		}
	}
	closes, stopsAfter := 0, 0
	for _, c := range w.Tty.Log {
		if c.Kind == "Close" {
			closes++
		} else if closes > 0 && (c.Kind == "Stop" || c.Kind == "Start") {
			stopsAfter++
		}
	}
	if closes != 1 || stopsAfter != 0 {
		w.Failf("C06/double-fini", "tty saw %d Close calls and %d Start/Stop calls after Close", closes, stopsAfter)
	}
	logLen := len(w.Tty.Log)
	post := s.Spawn("postfini", func() {
		g := s.Running()
		for i := 0; i < 3; i++ {
			parks := g.Parks
			ev := w.Scr.PollEvent()
			if ev != nil {
				w.Failf("C06/poll-after-fini", "PollEvent returned %s instead of nil after Fini had returned", describe(ev))
			}
			if g.Parks != parks {
				w.Failf("C06/poll-after-fini", "PollEvent blocked after Fini")
			}
		}
		w.Scr.Fini()
		for _, c := range w.Tty.Log[logLen:] {
			if c.Kind == "Close" || c.Kind == "Stop" || c.Kind == "Drain" {
				w.Failf("C06/double-fini", "a later Fini() called tty.%s again", c.Kind)
			}
		}
		w.pokeAll()
	})
	w.runPhase()
	if !post.Done() && post.Panic == nil {
		w.Failf("C06/poll-after-fini", "a Screen call after Fini never returns: %v", s.Blocked())
	}
}

// pokeAll calls a sample of every Screen method on a finished screen.
func (w *ew) pokeAll() {
	sc := w.Scr
	st := tcell.StyleDefault.Foreground(tcell.ColorRed)
	sc.SetContent(0, 0, 'a', nil, st)
	sc.SetCell(1, 0, st, 'b')
	_, _, _, _ = sc.GetContent(0, 0)
	sc.Fill('c', st)
	sc.Clear()
	sc.SetStyle(st)
	sc.ShowCursor(0, 0)
	sc.HideCursor()
	sc.SetCursorStyle(tcell.CursorStyleSteadyBar)
	sc.Size()
	sc.EnableMouse()
	sc.DisableMouse()
	sc.EnablePaste()
	sc.DisablePaste()
	sc.EnableFocus()
	sc.DisableFocus()
	sc.HasMouse()
	sc.Colors()
	sc.Show()
	sc.Sync()
	sc.CharacterSet()
	sc.RegisterRuneFallback('x', "y")
	sc.UnregisterRuneFallback('x')
	sc.CanDisplay('x', true)
	sc.HasKey(tcell.KeyF1)
	_ = sc.Beep()
	sc.SetSize(10, 10)
	sc.SetTitle("t")
	sc.SetClipboard([]byte("x"))
	sc.GetClipboard()
	sc.HasPendingEvent()
	_ = sc.PostEvent(tcell.NewEventInterrupt(nil))
	sc.LockRegion(0, 0, 1, 1, true)
	sc.LockRegion(0, 0, 1, 1, false)
	sc.Tty()
	_ = sc.Suspend()
}

func TestC05(t *testing.T) { rapid.Check(t, func(rt *rapid.T) { run(rt, "C05") }) }
func TestC06(t *testing.T) { rapid.Check(t, func(rt *rapid.T) { run(rt, "C06") }) }

var _ = json.Marshal
