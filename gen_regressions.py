#!/usr/bin/env python3
"""gen_regressions.py: for every "fix:" commit in /repo, write regressions/revert-<commit>/ with the
reverse patch (relative to the current HEAD, made in a scratch worktree outside /repo and /verif),
so that `verifctl mutants --dir regressions` can show that each check still sees the defect its
fix repaired.  A fix whose reverse no longer applies cleanly on HEAD (a later fix rewrote the same
lines) is skipped with a note."""
import json, os, subprocess, sys, tempfile
V = os.path.dirname(os.path.abspath(__file__))
def sh(*a, **k):
    return subprocess.run(a, stdout=subprocess.PIPE, stderr=subprocess.STDOUT, text=True, **k)
kf = json.load(open(os.path.join(V, "known_findings.json")))
finds = [x for v in kf.values() if isinstance(v, list) for x in v]
log = sh("git", "-C", "/repo", "log", "--format=%h %s").stdout.splitlines()
wt = tempfile.mkdtemp(prefix="regr-", dir="/tmp"); os.rmdir(wt)
sh("git", "-C", "/repo", "worktree", "add", "-q", "--detach", wt, "HEAD")
try:
    for l in log:
        c, subj = l.split(" ", 1)
        if not subj.startswith("fix:"):
            continue
        d = os.path.join(V, "regressions", "revert-" + c)
        r = sh("git", "-C", wt, "revert", "-n", c)
        if r.returncode != 0:
            sh("git", "-C", wt, "revert", "--abort"); sh("git", "-C", wt, "reset", "-q", "--hard", "HEAD")
            print("skip %s (reverse does not apply on HEAD): %s" % (c, subj)); continue
        if sh("go", "build", "./...", cwd=wt, env=dict(os.environ, GOFLAGS="-mod=mod", GOPROXY="off", GOSUMDB="off", GOTOOLCHAIN="local")).returncode != 0:
            sh("git", "-C", wt, "reset", "-q", "--hard", "HEAD"); print("skip %s (reverse does not build)" % c); continue
        patch = sh("git", "-C", wt, "diff", "HEAD").stdout
        sh("git", "-C", wt, "reset", "-q", "--hard", "HEAD")
        f = [x for x in finds if x.get("commit") == c]
        if not f:
            print("skip %s: no finding recorded" % c); continue
        os.makedirs(d, exist_ok=True)
        open(os.path.join(d, "patch.diff"), "w").write(patch)
        open(os.path.join(d, "subject.txt"), "w").write(subj + "\n")
        json.dump({"property": f[0].get("regression_property", f[0]["property"]), "also": [], "note": f[0].get("note", ""), "needs": "revert of " + subj,
                   "origin": "git revert of a fix: commit in /repo (regression seed, no separate demonstration: the finding in known_findings.json is the demonstration)",
                   "finding_key": f[0]["key"], "masked_by": f[0].get("masked_by", ""), "masked_note": f[0].get("masked_note", "")}, open(os.path.join(d, "meta.json"), "w"), indent=1)
        print("ok   %s %s" % (c, subj))
finally:
    sh("git", "-C", "/repo", "worktree", "remove", "--force", wt)
