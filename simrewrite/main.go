// simrewrite instruments a scratch copy of a Go package tree so that every
// blocking or nondeterministic construct goes through verif.local/simrt:
//
//   - imports of "sync" and "time" are swapped for the simulator's shims;
//   - select, channel send/receive, close, range-over-channel and go
//     statements become simulator-mediated forms (the native operation is
//     still performed, after the simulator has established it cannot block);
//   - range over a map iterates a key snapshot in simulator-chosen order.
//
// usage: simrewrite [-skip file,file] dir...      (dirs are package dirs; cwd
// must be inside the module so that imports resolve)
package main

import (
	"flag"
	"fmt"
	"go/ast"
	"go/build"
	"go/format"
	"go/importer"
	"go/parser"
	"go/token"
	"go/types"
	"os"
	"path/filepath"
	"sort"
	"strconv"
	"strings"
)

var (
	skipFlag   = flag.String("skip", "", "comma-separated file base names to leave untouched")
	goosFlag   = flag.String("goos", "", "GOOS for file selection")
	goarchFlag = flag.String("goarch", "", "GOARCH for file selection")
	tagsFlag   = flag.String("tags", "", "extra build tags, comma-separated")
	noTypes    = flag.Bool("notypes", false, "tolerate type errors (imports unresolved)")
	verbose    = flag.Bool("v", false, "verbose")
)

func main() {
	flag.Parse()
	skip := map[string]bool{}
	for _, s := range strings.Split(*skipFlag, ",") {
		if s != "" {
			skip[s] = true
		}
	}
	total := 0
	for _, dir := range flag.Args() {
		n, err := processDir(dir, skip)
		if err != nil {
			fmt.Fprintf(os.Stderr, "simrewrite: %s: %v\n", dir, err)
			os.Exit(2)
		}
		total += n
	}
	fmt.Printf("simrewrite: %d rewrites\n", total)
}

func processDir(dir string, skip map[string]bool) (int, error) {
	ctx := build.Default
	if *goosFlag != "" {
		ctx.GOOS = *goosFlag
	}
	if *goarchFlag != "" {
		ctx.GOARCH = *goarchFlag
	}
	if *tagsFlag != "" {
		ctx.BuildTags = append(ctx.BuildTags, strings.Split(*tagsFlag, ",")...)
	}
	ctx.CgoEnabled = false
	bp, err := ctx.ImportDir(dir, 0)
	if err != nil {
		return 0, err
	}
	fset := token.NewFileSet()
	var files []*ast.File
	srcs := map[*ast.File][]byte{}
	names := map[*ast.File]string{}
	for _, name := range bp.GoFiles {
		path := filepath.Join(dir, name)
		src, err := os.ReadFile(path)
		if err != nil {
			return 0, err
		}
		f, err := parser.ParseFile(fset, path, src, parser.ParseComments)
		if err != nil {
			return 0, err
		}
		files = append(files, f)
		srcs[f] = src
		names[f] = name
	}
	info := &types.Info{
		Types: map[ast.Expr]types.TypeAndValue{},
		Uses:  map[*ast.Ident]types.Object{},
		Defs:  map[*ast.Ident]types.Object{},
	}
	var terrs []error
	conf := types.Config{
		Importer: importer.ForCompiler(fset, "source", nil),
		Error:    func(err error) { terrs = append(terrs, err) },
	}
	_, _ = conf.Check(bp.ImportPath, fset, files, info)
	if len(terrs) > 0 && !*noTypes {
		for i, e := range terrs {
			if i < 10 {
				fmt.Fprintln(os.Stderr, "  type error:", e)
			}
		}
		return 0, fmt.Errorf("%d type errors (the copy does not compile?)", len(terrs))
	}
	total := 0
	for _, f := range files {
		if skip[names[f]] {
			continue
		}
		r := &rw{fset: fset, src: srcs[f], file: f, info: info, base: names[f]}
		out, n, err := r.run()
		if err != nil {
			return 0, fmt.Errorf("%s: %v", names[f], err)
		}
		if n == 0 {
			continue
		}
		total += n
		fm, err := format.Source(out)
		if err != nil {
			_ = os.WriteFile(filepath.Join(dir, names[f]+".broken"), out, 0o644)
			return 0, fmt.Errorf("%s: rewritten source does not parse: %v", names[f], err)
		}
		if err := os.WriteFile(filepath.Join(dir, names[f]), fm, 0o644); err != nil {
			return 0, err
		}
		if *verbose {
			fmt.Printf("  %s: %d rewrites\n", names[f], n)
		}
	}
	return total, nil
}

type rw struct {
	fset *token.FileSet
	src  []byte
	file *ast.File
	info *types.Info
	base string

	targets  map[ast.Node]bool
	skip     map[ast.Node]bool
	parentT  map[ast.Node]ast.Node // nearest enclosing target
	children map[ast.Node][]ast.Node
	recv2    map[ast.Node]bool // receive used in a two-value context
	n        int
	count    int
	usesSim  bool
}

func (r *rw) off(p token.Pos) int { return r.fset.Position(p).Offset }
func (r *rw) text(from, to token.Pos) string {
	return string(r.src[r.off(from):r.off(to)])
}
func (r *rw) site(p token.Pos) string {
	return strconv.Quote(r.base + ":" + strconv.Itoa(r.fset.Position(p).Line))
}
func (r *rw) fresh(prefix string) string {
	r.n++
	return fmt.Sprintf("__%s%d", prefix, r.n)
}

func unparen(e ast.Expr) ast.Expr {
	for {
		p, ok := e.(*ast.ParenExpr)
		if !ok {
			return e
		}
		e = p.X
	}
}

func isRecv(e ast.Expr) (*ast.UnaryExpr, bool) {
	u, ok := unparen(e).(*ast.UnaryExpr)
	if ok && u.Op == token.ARROW {
		return u, true
	}
	return nil, false
}

func (r *rw) typeOf(e ast.Expr) types.Type {
	if tv, ok := r.info.Types[e]; ok && tv.Type != nil {
		return tv.Type.Underlying()
	}
	return nil
}

func (r *rw) isConstOrNil(e ast.Expr) bool {
	tv, ok := r.info.Types[e]
	if !ok {
		return false
	}
	return tv.Value != nil || tv.IsNil()
}

func (r *rw) collect() {
	r.targets = map[ast.Node]bool{}
	r.skip = map[ast.Node]bool{}
	r.recv2 = map[ast.Node]bool{}
	labeled := map[ast.Stmt]*ast.LabeledStmt{}
	ast.Inspect(r.file, func(n ast.Node) bool {
		switch x := n.(type) {
		case *ast.LabeledStmt:
			labeled[x.Stmt] = x
		case *ast.SelectStmt:
			for _, c := range x.Body.List {
				cc := c.(*ast.CommClause)
				switch comm := cc.Comm.(type) {
				case *ast.SendStmt:
					r.skip[comm] = true
				case *ast.ExprStmt:
					if u, ok := isRecv(comm.X); ok {
						r.skip[u] = true
					}
				case *ast.AssignStmt:
					if len(comm.Rhs) == 1 {
						if u, ok := isRecv(comm.Rhs[0]); ok {
							r.skip[u] = true
						}
					}
				}
			}
			if l, ok := labeled[x]; ok {
				r.targets[l] = true
			} else {
				r.targets[x] = true
			}
		case *ast.SendStmt:
			if !r.skip[x] {
				r.targets[x] = true
			}
		case *ast.AssignStmt:
			if len(x.Lhs) == 2 && len(x.Rhs) == 1 {
				if u, ok := isRecv(x.Rhs[0]); ok {
					r.recv2[u] = true
				}
			}
		case *ast.ValueSpec:
			if len(x.Names) == 2 && len(x.Values) == 1 {
				if u, ok := isRecv(x.Values[0]); ok {
					r.recv2[u] = true
				}
			}
		case *ast.UnaryExpr:
			if x.Op == token.ARROW && !r.skip[x] {
				r.targets[x] = true
			}
		case *ast.CallExpr:
			if id, ok := unparen(x.Fun).(*ast.Ident); ok && id.Name == "close" && len(x.Args) == 1 {
				if _, isB := r.info.Uses[id].(*types.Builtin); isB {
					r.targets[x] = true
				}
			}
		case *ast.GoStmt:
			r.targets[x] = true
		case *ast.RangeStmt:
			switch r.typeOf(x.X).(type) {
			case *types.Map, *types.Chan:
				if l, ok := labeled[x]; ok {
					r.targets[l] = true
				} else {
					r.targets[x] = true
				}
			}
		}
		return true
	})
	// nesting
	r.children = map[ast.Node][]ast.Node{}
	var stack []ast.Node
	ast.Inspect(r.file, func(n ast.Node) bool {
		if n == nil {
			top := stack[len(stack)-1]
			stack = stack[:len(stack)-1]
			_ = top
			return true
		}
		if r.targets[n] {
			var owner ast.Node
			for i := len(stack) - 1; i >= 0; i-- {
				if r.targets[stack[i]] {
					owner = stack[i]
					break
				}
			}
			r.children[owner] = append(r.children[owner], n)
		}
		stack = append(stack, n)
		return true
	})
	for _, l := range r.children {
		sort.Slice(l, func(i, j int) bool { return l[i].Pos() < l[j].Pos() })
	}
}

// render returns the source text of [from,to) with the targets directly
// owned by owner rewritten.
func (r *rw) render(from, to token.Pos, owner ast.Node) string {
	var b strings.Builder
	pos := from
	for _, ch := range r.children[owner] {
		if ch.Pos() < from || ch.End() > to {
			continue
		}
		b.WriteString(r.text(pos, ch.Pos()))
		b.WriteString(r.rewrite(ch))
		pos = ch.End()
	}
	b.WriteString(r.text(pos, to))
	return b.String()
}

func (r *rw) expr(e ast.Expr, owner ast.Node) string {
	return r.render(e.Pos(), e.End(), owner)
}

func (r *rw) rewrite(n ast.Node) string {
	r.count++
	r.usesSim = true
	switch x := n.(type) {
	case *ast.LabeledStmt:
		switch in := x.Stmt.(type) {
		case *ast.SelectStmt:
			return r.rwSelect(in, x, x.Label.Name)
		case *ast.RangeStmt:
			return r.rwRange(in, x, x.Label.Name)
		}
	case *ast.SelectStmt:
		return r.rwSelect(x, x, "")
	case *ast.RangeStmt:
		return r.rwRange(x, x, "")
	case *ast.SendStmt:
		return fmt.Sprintf("simrt.Send(%s, %s, %s)", r.site(x.Pos()), r.expr(x.Chan, x), r.expr(x.Value, x))
	case *ast.UnaryExpr:
		fn := "Recv"
		if r.recv2[x] {
			fn = "Recv2"
		}
		return fmt.Sprintf("simrt.%s(%s, %s)", fn, r.site(x.Pos()), r.expr(x.X, x))
	case *ast.CallExpr: // close
		return fmt.Sprintf("simrt.Close(%s, %s)", r.site(x.Pos()), r.expr(x.Args[0], x))
	case *ast.GoStmt:
		return r.rwGo(x)
	}
	panic(fmt.Sprintf("simrewrite: unexpected target %T", n))
}

func (r *rw) rwGo(x *ast.GoStmt) string {
	var b strings.Builder
	call := x.Call
	b.WriteString("{\n")
	fn := r.fresh("f")
	fmt.Fprintf(&b, "%s := %s\n", fn, r.expr(call.Fun, x))
	var args []string
	for i, a := range call.Args {
		if r.isConstOrNil(a) {
			args = append(args, r.expr(a, x))
			continue
		}
		v := r.fresh("a")
		fmt.Fprintf(&b, "%s := %s\n", v, r.expr(a, x))
		if i == len(call.Args)-1 && call.Ellipsis.IsValid() {
			v += "..."
		}
		args = append(args, v)
	}
	fmt.Fprintf(&b, "simrt.Go(%s, func() { %s(%s) })\n}", r.site(x.Pos()), fn, strings.Join(args, ", "))
	return b.String()
}

func (r *rw) rwSelect(x *ast.SelectStmt, owner ast.Node, label string) string {
	var pre, sw strings.Builder
	var cases []string
	hasDefault := false
	idx := 0
	clauses := x.Body.List
	for ci, c := range clauses {
		cc := c.(*ast.CommClause)
		bodyEnd := x.Body.Rbrace
		if ci+1 < len(clauses) {
			bodyEnd = clauses[ci+1].Pos()
		}
		body := r.render(cc.Colon+1, bodyEnd, owner)
		if cc.Comm == nil {
			hasDefault = true
			fmt.Fprintf(&sw, "default:%s", body)
			continue
		}
		cv := r.fresh("c")
		switch comm := cc.Comm.(type) {
		case *ast.SendStmt:
			fmt.Fprintf(&pre, "%s := %s\n", cv, r.expr(comm.Chan, owner))
			val := r.expr(comm.Value, owner)
			if !r.isConstOrNil(comm.Value) {
				vv := r.fresh("v")
				fmt.Fprintf(&pre, "%s := %s\n", vv, val)
				val = vv
			}
			cases = append(cases, "simrt.S("+cv+")")
			fmt.Fprintf(&sw, "case %d:\n%s <- %s\nsimrt.Did()\n%s", idx, cv, val, body)
		case *ast.ExprStmt:
			u, _ := isRecv(comm.X)
			fmt.Fprintf(&pre, "%s := %s\n", cv, r.expr(u.X, owner))
			cases = append(cases, "simrt.R("+cv+")")
			fmt.Fprintf(&sw, "case %d:\n<-%s\nsimrt.Did()\n%s", idx, cv, body)
		case *ast.AssignStmt:
			u, _ := isRecv(comm.Rhs[0])
			fmt.Fprintf(&pre, "%s := %s\n", cv, r.expr(u.X, owner))
			cases = append(cases, "simrt.R("+cv+")")
			var lhs []string
			for _, l := range comm.Lhs {
				lhs = append(lhs, r.expr(l, owner))
			}
			fmt.Fprintf(&sw, "case %d:\n%s %s <-%s\nsimrt.Did()\n%s", idx, strings.Join(lhs, ", "), comm.Tok, cv, body)
		default:
			panic("simrewrite: unknown comm clause")
		}
		idx++
	}
	var b strings.Builder
	b.WriteString("{\n")
	b.WriteString(pre.String())
	if label != "" {
		b.WriteString(label + ":\n")
	}
	args := ""
	if len(cases) > 0 {
		args = ", " + strings.Join(cases, ", ")
	}
	if !hasDefault {
		sw.WriteString("default:\npanic(\"simrt: select index\")\n")
	}
	fmt.Fprintf(&b, "switch simrt.Select(%s, %v%s) {\n%s}\n}", r.site(x.Pos()), hasDefault, args, sw.String())
	return b.String()
}

func blank(e ast.Expr) bool {
	if e == nil {
		return true
	}
	id, ok := e.(*ast.Ident)
	return ok && id.Name == "_"
}

func (r *rw) rwRange(x *ast.RangeStmt, owner ast.Node, label string) string {
	var b strings.Builder
	body := r.render(x.Body.Lbrace+1, x.Body.Rbrace, owner)
	src := r.fresh("m")
	b.WriteString("{\n")
	fmt.Fprintf(&b, "%s := %s\n", src, r.expr(x.X, owner))
	lab := ""
	if label != "" {
		lab = label + ":\n"
	}
	switch r.typeOf(x.X).(type) {
	case *types.Map:
		kv := r.fresh("k")
		fmt.Fprintf(&b, "%sfor _, %s := range simrt.MapOrder(%s, %s) {\n", lab, kv, r.site(x.Pos()), src)
		ok := r.fresh("ok")
		define := x.Tok == token.DEFINE
		if !blank(x.Key) {
			if define {
				fmt.Fprintf(&b, "%s := %s\n", r.expr(x.Key, owner), kv)
			} else {
				fmt.Fprintf(&b, "%s = %s\n", r.expr(x.Key, owner), kv)
			}
		}
		if !blank(x.Value) {
			if define {
				fmt.Fprintf(&b, "%s, %s := %s[%s]\n", r.expr(x.Value, owner), ok, src, kv)
			} else {
				fmt.Fprintf(&b, "var %s bool\n%s, %s = %s[%s]\n", ok, r.expr(x.Value, owner), ok, src, kv)
			}
		} else {
			fmt.Fprintf(&b, "_, %s := %s[%s]\n", ok, src, kv)
		}
		fmt.Fprintf(&b, "if !%s {\ncontinue\n}\n", ok)
		if !blank(x.Key) && define {
			fmt.Fprintf(&b, "_ = %s\n", r.expr(x.Key, owner))
		}
		b.WriteString(body)
		b.WriteString("}\n}")
	case *types.Chan:
		ok := r.fresh("ok")
		fmt.Fprintf(&b, "%sfor {\n", lab)
		switch {
		case blank(x.Key):
			fmt.Fprintf(&b, "_, %s := simrt.Recv2(%s, %s)\n", ok, r.site(x.Pos()), src)
		case x.Tok == token.DEFINE:
			fmt.Fprintf(&b, "%s, %s := simrt.Recv2(%s, %s)\n", r.expr(x.Key, owner), ok, r.site(x.Pos()), src)
		default:
			fmt.Fprintf(&b, "var %s bool\n%s, %s = simrt.Recv2(%s, %s)\n", ok, r.expr(x.Key, owner), ok, r.site(x.Pos()), src)
		}
		fmt.Fprintf(&b, "if !%s {\nbreak\n}\n", ok)
		b.WriteString(body)
		b.WriteString("}\n}")
	}
	return b.String()
}

func (r *rw) run() ([]byte, int, error) {
	r.collect()
	// import swap
	type edit struct {
		from, to int
		text     string
	}
	var edits []edit
	swapped := 0
	hasSimrt := false
	for _, imp := range r.file.Imports {
		p, _ := strconv.Unquote(imp.Path.Value)
		var repl string
		switch p {
		case "sync":
			repl = "verif.local/simrt/ssync"
		case "time":
			repl = "verif.local/simrt/stime"
		case "verif.local/simrt":
			hasSimrt = true
		}
		if repl == "" {
			continue
		}
		name := p
		if imp.Name != nil {
			name = imp.Name.Name
		}
		edits = append(edits, edit{r.off(imp.Pos()), r.off(imp.End()), name + " " + strconv.Quote(repl)})
		swapped++
	}
	body := r.render(r.file.Package, r.file.End(), nil)
	if r.count == 0 && swapped == 0 {
		return nil, 0, nil
	}
	// apply import edits to the rendered text: they lie before any target,
	// so offsets relative to file.Package are unchanged.
	base := r.off(r.file.Package)
	sort.Slice(edits, func(i, j int) bool { return edits[i].from > edits[j].from })
	for _, e := range edits {
		body = body[:e.from-base] + e.text + body[e.to-base:]
	}
	head := string(r.src[:base])
	if r.usesSim && !hasSimrt {
		// insert an import declaration right after the package clause
		nl := strings.Index(body, "\n")
		if nl < 0 {
			nl = len(body)
		}
		body = body[:nl] + "\n\nimport simrt \"verif.local/simrt\"\n" + body[nl:]
	}
	return []byte(head + body), r.count + swapped, nil
}
