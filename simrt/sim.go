// Package simrt is a deterministic, serialised scheduler for Go code whose
// blocking operations (locks, channel operations, selects, wait groups,
// sleeps, timers, tty reads) have been routed through it by simrewrite.
//
// Exactly one registered goroutine runs at any instant.  Every choice (who
// runs next, which ready select case fires, how many bytes a read returns)
// comes from a Chooser that replays a pre-drawn stream, so that a run is a
// pure function of that stream and of the code under test.
package simrt

import (
	"fmt"
	"hash/fnv"
	"os"
	"reflect"
	"runtime"
	"sort"
	"strconv"
	"strings"
	"sync/atomic"
	"time"
)

// Epoch is the instant simulated clocks start at.
var Epoch = time.Date(2030, 1, 1, 0, 0, 0, 0, time.UTC)

// cur is the simulation currently active in this process (at most one).
var cur *Sim

// Current returns the active simulation or nil.
func Current() *Sim { return cur }

type opKind uint8

const (
	opNone opKind = iota
	opStart
	opYield
	opLock
	opSelect
	opWG
	opSleep
	opPred
	opSpawn
	opClose
)

type Case struct {
	ch   reflect.Value
	send bool
}

// R makes a receive case for Select.
//
//go:noinline
func R(c interface{}) Case { return Case{ch: reflect.ValueOf(c)} }

// S makes a send case for Select.
//
//go:noinline
func S(c interface{}) Case { return Case{ch: reflect.ValueOf(c), send: true} }

type op struct {
	kind       opKind
	site       string
	mu         *MutexState
	wg         *WGState
	cases      []Case
	hasDefault bool
	deadline   time.Duration
	pred       func() bool
	newG       *G            // opSpawn: goroutine to register
	closing    reflect.Value // opClose: channel that was just closed
}

// G is a registered goroutine.
type G struct {
	ID     int
	Name   string
	wake   chan struct{}
	op     op
	done   bool
	sel    int
	spawns int
	goid   uint64
	rdv    bool
	// Panic holds the recovered panic value, if the goroutine panicked.
	Panic      interface{}
	PanicStack string
	LastSite   string
	stalled    bool
	// Parks counts the times the goroutine actually had to wait (its
	// operation was not ready when it reached it).
	Parks   int
	unready bool // its pending operation was found not ready at some scheduling step
}

func (g *G) Done() bool { return g.done }

// Status is why Run returned to the driver.
type Status int

const (
	Quiescent Status = iota // nothing ready, no timer pending
	Budget                  // step or simulated-time budget exhausted
	Until                   // the until-predicate became true
)

func (s Status) String() string {
	switch s {
	case Quiescent:
		return "quiescent"
	case Budget:
		return "budget"
	case Until:
		return "until"
	}
	return "?"
}

type timerEnt struct {
	deadline time.Duration
	seq      uint64
	t        *TimerState
}

// Sim is one simulated execution.
type Sim struct {
	gs            []*G
	running       *G
	now           time.Duration
	ch            *Chooser
	driverWake    chan struct{}
	driverStopped bool
	stopStatus    Status
	stopped       bool
	reqG          *G
	reqWait       bool
	poisoned      bool
	closed        map[uintptr]reflect.Value
	timers        []*timerEnt
	timerSeq      uint64

	countdown int // decision points until next pre-emption; <0 = never
	GapScale  int

	Steps      int
	MaxSteps   int
	maxNow     time.Duration
	until      func() bool
	Switches   int
	Preempts   int
	Go123Timer bool

	hash     uint64
	TraceOn  bool
	Trace    []string
	Counters map[string]int

	// AfterStep, if set, runs on the scheduling goroutine after each decision
	// (used for invariants).  It must not call blocking sim operations.
	AfterStep func()

	rdvPending int32 // rendezvous partners that have not yet parked in Did()
	evaluating *G
	poisonAck  chan struct{}
}

// New creates a simulation and makes it current.
func New(ch *Chooser) *Sim {
	if cur != nil {
		panic("simrt: a simulation is already active")
	}
	s := &Sim{
		ch:         ch,
		driverWake: make(chan struct{}, 1),
		closed:     map[uintptr]reflect.Value{},
		GapScale:   1,
		MaxSteps:   200000,
		Counters:   map[string]int{},
		countdown:  -1,
	}
	h := fnv.New64a()
	s.hash = h.Sum64()
	s.countdown = s.nextCountdown()
	cur = s
	return s
}

func (s *Sim) Chooser() *Chooser { return s.ch }

// Now returns the simulated time since Epoch.
func (s *Sim) Now() time.Duration { return s.now }

// NowTime returns the simulated wall clock.
func (s *Sim) NowTime() time.Time { return Epoch.Add(s.now) }

func (s *Sim) Hash() uint64 { return s.hash }

// Count bumps a named probe counter.  Driver/scheduler side only in -race
// builds (it is a map).
func (s *Sim) Count(name string) { s.Counters[name]++ }

func (s *Sim) mix(a string, b int) {
	h := s.hash
	for i := 0; i < len(a); i++ {
		h ^= uint64(a[i])
		h *= 1099511628211
	}
	h ^= uint64(uint32(b))
	h *= 1099511628211
	s.hash = h
}

func (s *Sim) tr(format string, args ...interface{}) {
	if s.TraceOn {
		s.Trace = append(s.Trace, fmt.Sprintf("t=%v ", s.now)+fmt.Sprintf(format, args...))
	}
}

// Note adds a line to the trace and the schedule signature.
func (s *Sim) Note(what string) {
	s.mix(what, 0)
	s.tr("%s", what)
}

func (s *Sim) nextCountdown() int {
	v, ok := s.ch.Sched()
	if !ok {
		return -1
	}
	return v * s.GapScale
}

// Spawn registers a new goroutine running f.  It is parked at birth.
// It may be called by the driver only; simulated goroutines use Go.
func (s *Sim) Spawn(name string, f func()) *G {
	g := newG(name)
	s.register(g)
	go s.top(g, f)
	return g
}

func newG(name string) *G {
	g := &G{Name: name, wake: make(chan struct{}, 1)}
	g.op = op{kind: opStart, site: "start"}
	return g
}

func (s *Sim) register(g *G) {
	g.ID = len(s.gs)
	s.gs = append(s.gs, g)
}

func (s *Sim) top(g *G, f func()) {
	g.goid = goid()
	parkRaw(g.wake)
	defer s.exit(g)
	if s.poisoned {
		return
	}
	f()
}

func (s *Sim) exit(g *G) {
	if r := recover(); r != nil {
		if !s.poisoned {
			g.Panic = r
			buf := make([]byte, 16384)
			n := runtime.Stack(buf, false)
			g.PanicStack = string(buf[:n])
		}
	}
	g.done = true
	g.op = op{}
	if s.poisoned {
		signalRaw(s.poisonAck)
		return
	}
	s.dispatch(g, false)
}

// Running returns the goroutine currently executing (nil for the driver).
func (s *Sim) Running() *G { return s.running }

// Goroutines returns all registered goroutines.
func (s *Sim) Goroutines() []*G { return s.gs }

// Find returns the first goroutine whose name has the prefix.
func (s *Sim) Find(prefix string) *G {
	for _, g := range s.gs {
		if strings.HasPrefix(g.Name, prefix) {
			return g
		}
	}
	return nil
}

func (s *Sim) chanReady(c Case) bool {
	v := c.ch
	if !v.IsValid() || v.IsNil() {
		return false
	}
	if _, ok := s.closed[v.Pointer()]; ok {
		return true // recv returns zero; send panics (as in Go)
	}
	if c.send {
		if v.Cap() == 0 {
			return s.partnerFor(v, true) != nil
		}
		return v.Len() < v.Cap()
	}
	if v.Cap() == 0 {
		return s.partnerFor(v, false) != nil
	}
	return v.Len() > 0
}

// partnerFor finds a goroutine parked on the opposite operation of an
// unbuffered channel.
func (s *Sim) partnerFor(v reflect.Value, weSend bool) *G {
	p := v.Pointer()
	for _, g := range s.gs {
		if g == s.evaluating || g.done || g.op.kind != opSelect || g.stalled {
			continue
		}
		for _, c := range g.op.cases {
			if c.send != weSend && c.ch.IsValid() && !c.ch.IsNil() && c.ch.Pointer() == p {
				return g
			}
		}
	}
	return nil
}

func (s *Sim) opReady(g *G) bool {
	o := &g.op
	switch o.kind {
	case opStart, opYield:
		return true
	case opLock:
		return o.mu.owner == nil
	case opSpawn, opClose:
		return true
	case opSelect:
		if o.hasDefault {
			return true
		}
		s.evaluating = g
		for _, c := range o.cases {
			if s.chanReady(c) {
				s.evaluating = nil
				return true
			}
		}
		s.evaluating = nil
		return false
	case opWG:
		return o.wg.n <= 0
	case opSleep:
		return s.now >= o.deadline
	case opPred:
		return o.pred()
	}
	return false
}

func (s *Sim) readySet() []*G {
	var r []*G
	for _, g := range s.gs {
		if g.done || g.op.kind == opNone || g.stalled {
			continue
		}
		if s.opReady(g) {
			r = append(r, g)
		} else {
			g.unready = true
		}
	}
	return r
}

// nextDeadline returns the earliest pending timer or sleeper deadline.
func (s *Sim) nextDeadline() (time.Duration, bool) {
	var best time.Duration
	ok := false
	for _, t := range s.timers {
		if !ok || t.deadline < best {
			best, ok = t.deadline, true
		}
	}
	for _, g := range s.gs {
		if !g.done && !g.stalled && g.op.kind == opSleep {
			if !ok || g.op.deadline < best {
				best, ok = g.op.deadline, true
			}
		}
	}
	return best, ok
}

// fireTimers delivers every timer whose deadline has passed, in (deadline,
// seq) order.
func (s *Sim) fireTimers() {
	for {
		var best *timerEnt
		bi := -1
		for i, t := range s.timers {
			if t.deadline <= s.now {
				if best == nil || t.deadline < best.deadline || (t.deadline == best.deadline && t.seq < best.seq) {
					best, bi = t, i
				}
			}
		}
		if best == nil {
			return
		}
		s.timers = delTimer(s.timers, bi)
		best.t.ent = nil
		best.t.fire(s)
	}
}

// Advance moves the simulated clock forward by d and fires due timers.  It
// may be called from a sim goroutine (a "stalled machine" fault) or from the
// driver between runs.
func (s *Sim) Advance(d time.Duration) {
	if d <= 0 {
		return
	}
	s.now += d
	s.mix("adv", int(d/time.Microsecond))
	s.tr("clock +%v", d)
	s.fireTimers()
}

// pick chooses the goroutine to run next.  me is the goroutine calling (nil
// for the driver or an exiting goroutine); meCanContinue says whether me is
// a candidate.
func (s *Sim) pick(me *G) *G {
	for {
		ready := s.readySet()
		if len(ready) == 0 {
			dl, ok := s.nextDeadline()
			if !ok {
				return nil
			}
			if s.maxNow > 0 && dl > s.maxNow {
				return nil
			}
			if dl > s.now {
				s.tr("clock -> %v", dl)
				s.now = dl
			}
			s.fireTimers()
			continue
		}
		meReady := false
		if me != nil {
			for _, g := range ready {
				if g == me {
					meReady = true
					break
				}
			}
		}
		if meReady {
			if s.countdown != 0 || len(ready) == 1 {
				if s.countdown > 0 {
					s.countdown--
				}
				return me
			}
			// pre-empt
			s.countdown = s.nextCountdown()
			// choose among the others first (index 0 = lowest id other)
			others := make([]*G, 0, len(ready)-1)
			for _, g := range ready {
				if g != me {
					others = append(others, g)
				}
			}
			s.Preempts++
			return others[s.ch.SchedN(len(others))]
		}
		if len(ready) == 1 {
			return ready[0]
		}
		return ready[s.ch.SchedN(len(ready))]
	}
}

// resolve finalises the operation of g once it has been chosen to run.
func (s *Sim) resolve(g *G) {
	o := &g.op
	if g.unready {
		// it had to wait: on arrival, or because the operation stopped
		// being possible while the goroutine was pre-empted at it
		g.unready = false
		g.Parks++
	}
	switch o.kind {
	case opLock:
		o.mu.owner = g
	case opSelect:
		var ready []int
		s.evaluating = g
		for i, c := range o.cases {
			if s.chanReady(c) {
				ready = append(ready, i)
			}
		}
		s.evaluating = nil
		switch {
		case len(ready) == 0:
			g.sel = -1
		case len(ready) == 1:
			g.sel = ready[0]
		default:
			g.sel = ready[s.ch.SelN(len(ready))]
			s.Counters["select_multi_ready"]++
		}
		if g.sel >= 0 {
			c := o.cases[g.sel]
			if c.ch.Cap() == 0 {
				if _, closed := s.closed[c.ch.Pointer()]; !closed {
					s.evaluating = g
					p := s.partnerFor(c.ch, c.send)
					s.evaluating = nil
					if p != nil {
						s.pairUp(g, p, c)
					}
				}
			}
		}
		s.mix(o.site, g.sel)
		s.tr("%s select@%s -> %d", g.Name, o.site, g.sel)
	}
	g.LastSite = o.site
	g.op = op{}
}

// pairUp arranges an unbuffered rendezvous: partner p is released to perform
// the matching native operation and will park again in Did().
func (s *Sim) pairUp(g, p *G, c Case) {
	for i, pc := range p.op.cases {
		if pc.send != c.send && pc.ch.IsValid() && !pc.ch.IsNil() && pc.ch.Pointer() == c.ch.Pointer() {
			p.sel = i
			break
		}
	}
	s.mix("rdv:"+p.op.site, p.sel)
	s.tr("rendezvous %s <-> %s", g.Name, p.Name)
	p.LastSite = p.op.site
	p.op = op{kind: opYield, site: "rendezvous"}
	p.rdv = true
	atomic.AddInt32(&s.rdvPending, 1)
	signalRaw(p.wake)
}

// dispatch is called by the goroutine that stops running (me) to hand the
// processor to the next goroutine; if wait is true, me parks until chosen.
//
// In ordinary builds the scheduling step runs inline on the calling
// goroutine (no context switch when the same goroutine continues).  In
// -race builds it runs on the driver goroutine, so that the simulator's own
// bookkeeping (maps, slices, formatting) is never touched from two
// goroutines and cannot itself show up in race reports.
func (s *Sim) dispatch(me *G, wait bool) {
	if RaceBuild {
		s.reqG, s.reqWait = me, wait
		signalRaw(s.driverWake)
	} else if s.step(me, wait) {
		return
	}
	if wait {
		parkRaw(me.wake)
		if s.poisoned {
			runtime.Goexit()
		}
	}
}

// step makes one scheduling decision.  It returns true when me is to
// continue without parking (inline mode only).
func (s *Sim) step(me *G, wait bool) bool {
	if me != nil {
		switch me.op.kind {
		case opSpawn:
			s.register(me.op.newG)
			s.mix("go:"+me.op.newG.Name, me.op.newG.ID)
			s.tr("%s go %s", me.Name, me.op.newG.Name)
		case opClose:
			if v := me.op.closing; v.IsValid() && !v.IsNil() {
				s.closed[v.Pointer()] = v
			}
			s.mix("close:"+me.op.site, 0)
			s.tr("%s close@%s", me.Name, me.op.site)
		}
		if me.done {
			if me.Panic != nil {
				s.mix("panic:"+me.Name, 0)
				s.tr("PANIC in %s: %v", me.Name, me.Panic)
			} else {
				s.tr("exit %s", me.Name)
			}
		}
	}
	s.Steps++
	if s.AfterStep != nil {
		s.AfterStep()
	}
	if wait {
		me.unready = !s.opReady(me)
	}
	var next *G
	stop := Quiescent
	switch {
	case s.Steps >= s.MaxSteps:
		stop = Budget
	case s.until != nil && s.until():
		stop = Until
	default:
		var cand *G
		if wait {
			cand = me
		}
		next = s.pick(cand)
	}
	if next != nil && next == me && wait {
		s.resolve(me)
		if RaceBuild {
			signalRaw(me.wake)
			return false
		}
		return true
	}
	if next == nil {
		s.running = nil
		s.stopStatus = stop
		s.stopped = true
		if !RaceBuild {
			if me != nil {
				signalRaw(s.driverWake)
			} else {
				// the driver itself ran the first step of RunUntil and
				// nothing is runnable: no goroutine will send a token
				s.driverStopped = true
			}
		}
		return false
	}
	s.Switches++
	s.mix(next.Name, next.ID)
	s.tr("run %s (%s)", next.Name, next.op.site)
	s.running = next
	s.resolve(next)
	signalRaw(next.wake)
	return false
}

// point is a decision point for the running goroutine with the given op.
func (s *Sim) point(o op) *G {
	g := s.running
	if g == nil {
		panic("simrt: blocking operation outside a simulated goroutine at " + o.site)
	}
	if s.poisoned {
		runtime.Goexit()
	}
	g.op = o
	s.dispatch(g, true)
	return g
}

// Run hands control to the simulation until nothing is ready and no timer is
// pending (Quiescent), or a budget is hit.  It is called on the driver
// goroutine only.
func (s *Sim) Run() Status { return s.RunUntil(nil, 0) }

// RunUntil is Run with an optional stop predicate (checked at every
// decision) and a bound on simulated time (0 = none).
func (s *Sim) RunUntil(until func() bool, maxNow time.Duration) Status {
	s.until = until
	s.maxNow = maxNow
	s.stopped = false
	defer func() { s.until = nil; s.maxNow = 0 }()
	if until != nil && until() {
		return Until
	}
	s.Steps--
	s.driverStopped = false
	s.step(nil, false)
	if !RaceBuild {
		// Exactly one token is sent per run, by the goroutine whose step
		// stops it.  It must be consumed even when that goroutine has already
		// set s.stopped by the time the driver gets here: a token left behind
		// fills the channel and blocks the stopping goroutine of a later run
		// for ever.
		if !s.driverStopped {
			parkRaw(s.driverWake)
		}
		return s.stopStatus
	}
	for !s.stopped {
		parkRaw(s.driverWake)
		if !s.stopped {
			s.step(s.reqG, s.reqWait)
		}
	}
	return s.stopStatus
}

// Blocked describes every unfinished goroutine and what it waits for.
func (s *Sim) Blocked() []string {
	var out []string
	for _, g := range s.gs {
		if g.done {
			continue
		}
		out = append(out, fmt.Sprintf("%s@%s", g.Name, s.describe(g)))
	}
	sort.Strings(out)
	return out
}

func (s *Sim) describe(g *G) string {
	o := &g.op
	switch o.kind {
	case opLock:
		own := "?"
		if o.mu.owner != nil {
			own = o.mu.owner.Name
		}
		return fmt.Sprintf("lock(%s held by %s)", o.site, own)
	case opSelect:
		var parts []string
		for _, c := range o.cases {
			d := "recv"
			if c.send {
				d = "send"
			}
			if c.ch.IsValid() && !c.ch.IsNil() {
				parts = append(parts, fmt.Sprintf("%s %d/%d", d, c.ch.Len(), c.ch.Cap()))
			} else {
				parts = append(parts, d+" nil")
			}
		}
		return fmt.Sprintf("chan(%s: %s)", o.site, strings.Join(parts, ", "))
	case opWG:
		return fmt.Sprintf("wg.Wait(%s n=%d)", o.site, o.wg.n)
	case opSleep:
		return fmt.Sprintf("sleep(%s)", o.site)
	case opPred:
		return fmt.Sprintf("wait(%s)", o.site)
	case opStart:
		return "start"
	case opYield:
		return "yield(" + o.site + ")"
	}
	return "running"
}

// Stall removes a goroutine from scheduling (a stalled thread) until Unstall.
func (s *Sim) Stall(g *G)   { g.stalled = true }
func (s *Sim) Unstall(g *G) { g.stalled = false }

// Shutdown poisons every unfinished goroutine (it runs its deferred calls
// and exits) and deactivates the simulation.
func (s *Sim) Shutdown() error {
	s.poisoned = true
	s.poisonAck = make(chan struct{}, 1)
	var err error
	for _, g := range s.gs {
		if g.done {
			continue
		}
		signalRaw(g.wake)
		select {
		case <-s.poisonAck:
		case <-time.After(shutdownTimeout()):
			buf := make([]byte, 1<<18)
			n := runtime.Stack(buf, true)
			err = fmt.Errorf("simrt: goroutine %s did not exit on shutdown (last site %s, op %d, done %v)\n%s", g.Name, g.LastSite, g.op.kind, g.done, buf[:n])
		}
	}
	cur = nil
	return err
}

// ---- operations used by instrumented code and by harness actors ----

// Yield is a pure decision point.
//
//go:noinline
func Yield(site string) {
	s := cur
	if s == nil {
		return
	}
	s.point(op{kind: opYield, site: site})
}

// Wait parks the calling goroutine until pred is true.
//
//go:noinline
func Wait(site string, pred func() bool) {
	s := cur
	if s == nil {
		panic("simrt.Wait outside simulation")
	}
	s.point(op{kind: opPred, site: site, pred: pred})
}

// Sleep parks the calling goroutine for d of simulated time.
//
//go:noinline
func Sleep(site string, d time.Duration) {
	s := cur
	if s == nil {
		return
	}
	if s.running == nil {
		return
	}
	s.point(op{kind: opSleep, site: site, deadline: s.now + d})
}

// Go starts a simulated goroutine from instrumented code.  The real go
// statement is executed by the parent (keeping its happens-before edge);
// registration is done by the scheduler.
//
//go:noinline
func Go(site string, f func()) {
	s := cur
	if s == nil {
		go f()
		return
	}
	if s.poisoned {
		return
	}
	parent := s.running
	if parent == nil {
		panic("simrt.Go outside a simulated goroutine at " + site)
	}
	parent.spawns++
	g := newG(site + "#" + strconv.Itoa(parent.ID) + "." + strconv.Itoa(parent.spawns))
	go s.top(g, f)
	s.point(op{kind: opSpawn, site: site, newG: g})
}

// Select parks until one of the cases can proceed and returns the index of
// the case the simulator chose, or -1 for default.
//
//go:noinline
func Select(site string, hasDefault bool, cases ...Case) int {
	s := cur
	if s == nil {
		panic("simrt.Select outside simulation at " + site)
	}
	g := s.point(op{kind: opSelect, site: site, cases: cases, hasDefault: hasDefault})
	return g.sel
}

// Did is called by instrumented code right after the native channel
// operation of a select arm or a stand-alone operation.  It only matters to
// the released partner of an unbuffered rendezvous, which parks here.
//
//go:noinline
func Did() {
	s := cur
	if s == nil || atomic.LoadInt32(&s.rdvPending) == 0 {
		return
	}
	s.did()
}

// The generic wrappers below are instantiated inside the package that uses
// them (the instrumented copy of the code under test), so they must not
// touch simulator state themselves: in a -race build their bodies are
// race-instrumented as part of that package.  They only call non-generic,
// non-inlinable helpers and perform the native channel operation.

// SendPrep waits until a send on c can proceed; it returns false when no
// simulation is active (the caller then just performs the operation).
//
//go:noinline
func SendPrep(site string, c interface{}) bool {
	s := cur
	if s == nil {
		return false
	}
	if s.poisoned {
		runtime.Goexit()
	}
	s.point(op{kind: opSelect, site: site, cases: []Case{S(c)}})
	return true
}

// RecvPrep waits until a receive on c can proceed.
//
//go:noinline
func RecvPrep(site string, c interface{}) bool {
	s := cur
	if s == nil {
		return false
	}
	if s.poisoned {
		runtime.Goexit()
	}
	s.point(op{kind: opSelect, site: site, cases: []Case{R(c)}})
	return true
}

// ClosePost records that c was just closed and yields.
//
//go:noinline
func ClosePost(site string, c interface{}) {
	s := cur
	if s != nil && !s.poisoned && s.running != nil {
		s.point(op{kind: opClose, site: site, closing: reflect.ValueOf(c)})
	}
}

// Send is the instrumented form of c <- v.
func Send[T any](site string, c chan<- T, v T) {
	if SendPrep(site, c) {
		c <- v
		Did()
		return
	}
	c <- v
}

// Recv is the instrumented form of <-c.
func Recv[T any](site string, c <-chan T) T {
	if RecvPrep(site, c) {
		v := <-c
		Did()
		return v
	}
	return <-c
}

// Recv2 is the instrumented form of v, ok := <-c.
func Recv2[T any](site string, c <-chan T) (T, bool) {
	if RecvPrep(site, c) {
		v, ok := <-c
		Did()
		return v, ok
	}
	v, ok := <-c
	return v, ok
}

// Close is the instrumented form of close(c).
func Close[T any](site string, c chan<- T) {
	close(c)
	ClosePost(site, c)
}

// MapOrder returns the keys of m in an order chosen by the simulator
// (sorted, then permuted by the chooser when one is active).
func MapOrder[K comparable, V any](site string, m map[K]V) []K {
	keys := make([]K, 0, len(m))
	for k := range m {
		keys = append(keys, k)
	}
	if ks, ok := any(keys).([]string); ok && len(ks) > 16 {
		sortStringsCached(ks)
	} else {
		sortKeys(keys)
	}
	if len(keys) < 2 {
		return keys
	}
	mode, seed := mapMode(site)
	switch mode {
	case 1:
		for i, j := 0, len(keys)-1; i < j; i, j = i+1, j-1 {
			keys[i], keys[j] = keys[j], keys[i]
		}
	case 2, 3:
		if ks, ok := any(keys).([]string); ok {
			longest := mode == 3
			sort.SliceStable(ks, func(i, j int) bool {
				if longest {
					return len(ks[i]) > len(ks[j])
				}
				return len(ks[i]) < len(ks[j])
			})
		}
	case 4:
		x := seed
		for i := len(keys) - 1; i > 0; i-- {
			x ^= x << 13
			x ^= x >> 7
			x ^= x << 17
			j := int(x % uint64(i+1))
			keys[i], keys[j] = keys[j], keys[i]
		}
	}
	return keys
}

// mapMode returns the iteration-order mode of the active simulation.
//
//go:noinline
func mapMode(site string) (int, uint64) {
	s := cur
	if s == nil || s.poisoned || s.ch == nil {
		return 0, 0
	}
	x := s.ch.MapSeed | 1
	for _, c := range site {
		x = x*6364136223846793005 + uint64(c)
	}
	return s.ch.MapMode, x
}

func sortKeys[K comparable](keys []K) {
	if len(keys) < 2 {
		return
	}
	switch ks := any(keys).(type) {
	case []string:
		sort.Strings(ks)
		return
	case []int:
		sort.Ints(ks)
		return
	case []rune:
		sort.Slice(ks, func(i, j int) bool { return ks[i] < ks[j] })
		return
	}
	rv := reflect.ValueOf(keys)
	switch rv.Index(0).Kind() {
	case reflect.String:
		sort.Slice(keys, func(i, j int) bool { return rv.Index(i).String() < rv.Index(j).String() })
	case reflect.Int, reflect.Int8, reflect.Int16, reflect.Int32, reflect.Int64:
		sort.Slice(keys, func(i, j int) bool { return rv.Index(i).Int() < rv.Index(j).Int() })
	case reflect.Uint, reflect.Uint8, reflect.Uint16, reflect.Uint32, reflect.Uint64, reflect.Uintptr:
		sort.Slice(keys, func(i, j int) bool { return rv.Index(i).Uint() < rv.Index(j).Uint() })
	default:
		sort.Slice(keys, func(i, j int) bool { return fmt.Sprint(keys[i]) < fmt.Sprint(keys[j]) })
	}
}

// sortStringsCached sorts a large string key set, remembering the result by
// an order-independent fingerprint of the set (key tables of a terminal are
// iterated tens of times per run and are the same from run to run).
var sortCache = map[[2]uint64][]string{}

//go:noinline
func sortStringsCached(ks []string) {
	if RaceBuild {
		// the cache is a global map: keep it out of -race builds, where
		// map operations are visible to the detector from any caller
		sort.Strings(ks)
		return
	}
	var a, b uint64
	for _, k := range ks {
		h1, h2 := uint64(14695981039346656037), uint64(0x9e3779b97f4a7c15)
		for i := 0; i < len(k); i++ {
			h1 = (h1 ^ uint64(k[i])) * 1099511628211
			h2 = (h2 + uint64(k[i]) + 1) * 0xff51afd7ed558ccd
			h2 ^= h2 >> 29
		}
		a += h1
		b += h2 ^ uint64(len(k))
	}
	key := [2]uint64{a ^ uint64(len(ks)), b}
	if c, ok := sortCache[key]; ok && len(c) == len(ks) {
		copy(ks, c)
		return
	}
	sort.Strings(ks)
	if len(sortCache) > 512 {
		sortCache = map[[2]uint64][]string{}
	}
	sortCache[key] = append([]string(nil), ks...)
}

// IsParkedIdle reports whether g is parked on an operation that cannot
// proceed right now (it is waiting for someone else).
func (s *Sim) IsParkedIdle(g *G) bool {
	if g.done {
		return true
	}
	if g.op.kind == opNone {
		return false // executing (an operation is set before the scheduler runs and cleared on resume)
	}
	if g.op.kind == opSleep {
		return false // will wake by itself
	}
	save := s.evaluating
	r := !s.opReady(g)
	s.evaluating = save
	return r
}

// shutdownTimeout is generous: it only guards against a goroutine wedged in
// native blocking code.  VERIF_SHUTDOWN_TIMEOUT (seconds) overrides it.
func shutdownTimeout() time.Duration {
	if v := os.Getenv("VERIF_SHUTDOWN_TIMEOUT"); v != "" {
		if n, err := strconv.Atoi(v); err == nil {
			return time.Duration(n) * time.Second
		}
	}
	return 180 * time.Second
}
