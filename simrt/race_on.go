//go:build race

package simrt

import "runtime"

// RaceBuild reports whether the binary was built with -race.
const RaceBuild = true

func raceDisable() { runtime.RaceDisable() }
func raceEnable()  { runtime.RaceEnable() }

// RaceErrors returns the number of race reports so far.
func RaceErrors() int { return runtime.RaceErrors() }
