package simrt

import (
	"runtime"
	"time"
)

// TimerState is a simulated time.Timer.
type TimerState struct {
	C   chan time.Time
	ent *timerEnt
	f   func()
	// Period > 0 makes it a ticker: it re-arms itself every time it fires.
	Period time.Duration
}

func (t *TimerState) fire(s *Sim) {
	s.mix("timer", int(s.now/time.Microsecond))
	s.tr("timer fires")
	if t.f != nil {
		f := t.f
		s.Spawn("afterfunc", f)
		return
	}
	select {
	case t.C <- Epoch.Add(s.now):
	default:
	}
	if t.Period > 0 {
		s.arm(t, t.Period)
	}
}

func (s *Sim) arm(t *TimerState, d time.Duration) {
	if d < 0 {
		d = 0
	}
	s.timerSeq++
	t.ent = &timerEnt{deadline: s.now + d, seq: s.timerSeq, t: t}
	s.timers = append(s.timers, t.ent)
}

// delTimer removes element i with plain stores: the runtime's slice copy
// helpers carry race-detector hooks of their own (also when called from a
// package compiled without -race), and two library goroutines that each
// stop their own timer would be reported as racing on the simulator's list.
func delTimer(ts []*timerEnt, i int) []*timerEnt {
	for j := i; j+1 < len(ts); j++ {
		ts[j] = ts[j+1]
	}
	ts[len(ts)-1] = nil
	return ts[:len(ts)-1]
}

func (s *Sim) disarm(t *TimerState) bool {
	if t.ent == nil {
		return false
	}
	for i, e := range s.timers {
		if e == t.ent {
			s.timers = delTimer(s.timers, i)
			break
		}
	}
	t.ent = nil
	return true
}

// NewTimer creates a simulated timer; outside a simulation it returns nil
// and the caller must fall back to the real clock.
//
//go:noinline
func NewTimer(d time.Duration, f func()) *TimerState {
	s := cur
	if s == nil {
		return nil
	}
	t := &TimerState{f: f}
	if f == nil {
		t.C = make(chan time.Time, 1)
	}
	if !s.poisoned {
		s.arm(t, d)
	}
	return t
}

// Stop implements time.Timer.Stop on the simulated clock.
//
//go:noinline
func (t *TimerState) Stop() bool {
	s := cur
	if s == nil || s.poisoned {
		return false
	}
	was := s.disarm(t)
	if s.Go123Timer && t.C != nil {
		// Go 1.23 semantics: no stale value is observable after Stop, and a
		// fired-but-unreceived timer counts as still running.
		select {
		case <-t.C:
			was = true
		default:
		}
	}
	return was
}

// Reset implements time.Timer.Reset on the simulated clock.
//
//go:noinline
func (t *TimerState) Reset(d time.Duration) bool {
	s := cur
	if s == nil || s.poisoned {
		return false
	}
	was := t.Stop()
	s.arm(t, d)
	return was
}

func poisonCheck() {
	if s := cur; s != nil && s.poisoned {
		runtime.Goexit()
	}
}
