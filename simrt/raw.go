package simrt

import (
	"runtime"
	"sync/atomic"
)

// parkRaw and signalRaw are the scheduler hand-off.  They must not create
// happens-before edges visible to the race detector, or serialising the
// goroutines would hide every race in the code under test: the channel
// carries zero-size elements and the operations are bracketed by
// RaceDisable/RaceEnable.

//go:norace
func parkRaw(c chan struct{}) {
	raceDisable()
	<-c
	raceEnable()
}

//go:norace
func signalRaw(c chan struct{}) {
	raceDisable()
	c <- struct{}{}
	raceEnable()
}

// goid returns the runtime id of the calling goroutine (parsed from the
// stack header; used only to identify a rendezvous partner).
func goid() uint64 {
	var buf [64]byte
	n := runtime.Stack(buf[:], false)
	// "goroutine 123 [running]:"
	var id uint64
	for i := len("goroutine "); i < n; i++ {
		c := buf[i]
		if c < '0' || c > '9' {
			break
		}
		id = id*10 + uint64(c-'0')
	}
	return id
}

func (s *Sim) did() {
	id := goid()
	var me *G
	for _, g := range s.gs {
		if g.goid == id {
			me = g
			break
		}
	}
	if me == nil || !me.rdv {
		return
	}
	me.rdv = false
	atomic.AddInt32(&s.rdvPending, -1)
	parkRaw(me.wake)
	if s.poisoned {
		runtime.Goexit()
	}
}
