//go:build !race

package simrt

const RaceBuild = false

func raceDisable() {}
func raceEnable()  {}

func RaceErrors() int { return 0 }
