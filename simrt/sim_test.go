package simrt

import (
	"testing"
	"time"
)

func TestPingPong(t *testing.T) {
	for seed := 0; seed < 50; seed++ {
		ch := &Chooser{}
		for i := 0; i < seed; i++ {
			ch.SchedS = append(ch.SchedS, uint16((i*7+seed)%5))
			ch.SelS = append(ch.SelS, uint8(i))
		}
		s := New(ch)
		c := make(chan int, 2)
		quit := make(chan struct{})
		var got []int
		var mu MutexState
		shared := 0
		s.Spawn("prod", func() {
			for i := 0; i < 10; i++ {
				Send("p", c, i)
				mu.Lock("l")
				shared++
				mu.Unlock("u")
			}
			Close("cq", quit)
		})
		s.Spawn("cons", func() {
			for {
				switch Select("s", false, R(c), R(quit)) {
				case 0:
					v := <-c
					Did()
					got = append(got, v)
				case 1:
					<-quit
					Did()
					if len(c) == 0 {
						return
					}
				}
			}
		})
		s.Spawn("sleeper", func() {
			Sleep("z", 50*time.Millisecond)
			mu.Lock("l")
			shared += 100
			mu.Unlock("u")
		})
		st := s.Run()
		if st != Quiescent {
			t.Fatalf("status %v", st)
		}
		for _, g := range s.Goroutines() {
			if !g.Done() {
				t.Fatalf("seed %d: %s not done: %v", seed, g.Name, s.Blocked())
			}
		}
		if len(got) != 10 || shared != 110 {
			t.Fatalf("seed %d got %v shared %d", seed, got, shared)
		}
		for i, v := range got {
			if v != i {
				t.Fatalf("order %v", got)
			}
		}
		if s.Now() != 50*time.Millisecond {
			t.Fatalf("now %v", s.Now())
		}
		if err := s.Shutdown(); err != nil {
			t.Fatal(err)
		}
	}
}

func TestDeadlockAndPoison(t *testing.T) {
	s := New(nil)
	c := make(chan int, 1)
	var mu MutexState
	cleaned := false
	s.Spawn("a", func() {
		mu.Lock("l")
		defer func() { cleaned = true; mu.Unlock("u") }()
		Send("a1", c, 1)
		Send("a2", c, 2) // blocks forever
	})
	s.Spawn("b", func() {
		mu.Lock("l")
		mu.Unlock("u")
	})
	if st := s.Run(); st != Quiescent {
		t.Fatal(st)
	}
	bl := s.Blocked()
	if len(bl) != 2 {
		t.Fatalf("blocked %v", bl)
	}
	t.Log(bl)
	if err := s.Shutdown(); err != nil {
		t.Fatal(err)
	}
	if !cleaned {
		t.Fatal("deferred not run")
	}
	// the real mutex must be free again
	mu.Lock("x")
	mu.Unlock("x")
}

func TestRendezvous(t *testing.T) {
	for seed := 0; seed < 20; seed++ {
		ch := &Chooser{}
		for i := 0; i < seed*3; i++ {
			ch.SchedS = append(ch.SchedS, uint16((i*3+seed)%4))
		}
		s := New(ch)
		c := make(chan int)
		sum := 0
		s.Spawn("tx", func() {
			for i := 1; i <= 5; i++ {
				Send("tx", c, i)
			}
		})
		s.Spawn("rx", func() {
			for i := 1; i <= 5; i++ {
				sum += Recv("rx", (<-chan int)(c))
			}
		})
		s.Run()
		if sum != 15 {
			t.Fatalf("seed %d sum %d %v", seed, sum, s.Blocked())
		}
		if err := s.Shutdown(); err != nil {
			t.Fatal(err)
		}
	}
}

func TestTimerSemantics(t *testing.T) {
	for _, g123 := range []bool{false, true} {
		s := New(nil)
		s.Go123Timer = g123
		var stopRet bool
		var stale bool
		s.Spawn("a", func() {
			tm := NewTimer(10*time.Millisecond, nil)
			Sleep("z", 20*time.Millisecond)
			stopRet = tm.Stop()
			select {
			case <-tm.C:
				stale = true
			default:
			}
		})
		s.Run()
		s.Shutdown()
		if g123 && (!stopRet || stale) {
			t.Fatalf("go1.23 semantics: stop=%v stale=%v", stopRet, stale)
		}
		if !g123 && (stopRet || !stale) {
			t.Fatalf("old semantics: stop=%v stale=%v", stopRet, stale)
		}
	}
}
