package simrt

// Chooser replays pre-drawn choice streams.  When a stream is exhausted
// every further choice is the default (0): continue the current goroutine,
// lowest-id ready goroutine, first ready select case, whole pending input in
// one read, no fault.  That is the point shrinking converges to.
type Chooser struct {
	SchedS     []uint16 // pre-emption gaps and goroutine picks
	SelS       []uint8  // which ready select case
	IOS        []uint16 // read sizes and other i/o choices
	si, li, ii int

	// MapMode selects the iteration order MapOrder gives: 0 sorted,
	// 1 reverse sorted, 2 shortest-first, 3 longest-first, 4 seeded shuffle.
	MapMode int
	MapSeed uint64

	Used struct{ Sched, Sel, IO int }
}

// Sched returns the next raw scheduling value.
func (c *Chooser) Sched() (int, bool) {
	if c == nil || c.si >= len(c.SchedS) {
		return 0, false
	}
	v := c.SchedS[c.si]
	c.si++
	c.Used.Sched++
	return int(v), true
}

// SchedN picks one of n alternatives for the scheduler.
func (c *Chooser) SchedN(n int) int {
	v, _ := c.Sched()
	return v % n
}

// SelN picks one of n ready select cases.
func (c *Chooser) SelN(n int) int {
	if c == nil || c.li >= len(c.SelS) {
		return 0
	}
	v := c.SelS[c.li]
	c.li++
	c.Used.Sel++
	return int(v) % n
}

// IO picks one of n alternatives for an i/o decision (0 = default).
func (c *Chooser) IO(n int) int {
	if c == nil || n <= 1 || c.ii >= len(c.IOS) {
		return 0
	}
	v := c.IOS[c.ii]
	c.ii++
	c.Used.IO++
	return int(v) % n
}
