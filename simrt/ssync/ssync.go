// Package ssync is the stand-in for package sync in the instrumented copy
// of the code under test.
package ssync

import (
	"runtime"
	"strconv"

	"verif.local/simrt"
)

func site(skip int) string {
	_, f, l, ok := runtime.Caller(skip)
	if !ok {
		return "?"
	}
	for i := len(f) - 1; i >= 0; i-- {
		if f[i] == '/' {
			f = f[i+1:]
			break
		}
	}
	return f + ":" + strconv.Itoa(l)
}

// SiteNames controls whether lock sites are resolved to file:line (costly).
var SiteNames = false

type Locker interface {
	Lock()
	Unlock()
}

type Mutex struct{ st simrt.MutexState }

//go:noinline
func (m *Mutex) Lock() {
	s := "lock"
	if SiteNames {
		s = site(2)
	}
	m.st.Lock(s)
}

//go:noinline
func (m *Mutex) Unlock() {
	s := "unlock"
	if SiteNames {
		s = site(2)
	}
	m.st.Unlock(s)
}

// SimOwner reports the simulated goroutine holding the mutex.
//
//go:noinline
func (m *Mutex) SimOwner() *simrt.G { return m.st.Owner() }

// RWMutex is implemented as an exclusive lock (a refinement: every
// behaviour it allows, sync.RWMutex allows).
type RWMutex struct{ Mutex }

//go:noinline
func (m *RWMutex) RLock() { m.Lock() }

//go:noinline
func (m *RWMutex) RUnlock() { m.Unlock() }

type WaitGroup struct{ st simrt.WGState }

//go:noinline
func (w *WaitGroup) Add(d int) { w.st.Add("wg.Add", d) }

//go:noinline
func (w *WaitGroup) Done() { w.st.Add("wg.Done", -1) }

//go:noinline
func (w *WaitGroup) Wait() {
	s := "wg.Wait"
	if SiteNames {
		s = site(2)
	}
	w.st.Wait(s)
}

//go:noinline
func (w *WaitGroup) SimN() int { return w.st.N() }

type Once struct{ st simrt.OnceState }

//go:noinline
func (o *Once) Do(f func()) { o.st.Do("once", f) }
