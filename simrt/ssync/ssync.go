// Package ssync is the stand-in for package sync in the instrumented copy
// of the code under test.
package ssync

import (
	"runtime"
	"strconv"
	"sync"

	"verif.local/simrt"
)

func site(skip int) string {
	_, f, l, ok := runtime.Caller(skip)
	if !ok {
		return "?"
	}
	for i := len(f) - 1; i >= 0; i-- {
		if f[i] == '/' {
			f = f[i+1:]
			break
		}
	}
	return f + ":" + strconv.Itoa(l)
}

// SiteNames controls whether lock sites are resolved to file:line (costly).
var SiteNames = false

type Locker interface {
	Lock()
	Unlock()
}

type Mutex struct{ st simrt.MutexState }

//go:noinline
func (m *Mutex) Lock() {
	s := "lock"
	if SiteNames {
		s = site(2)
	}
	m.st.Lock(s)
}

//go:noinline
func (m *Mutex) Unlock() {
	s := "unlock"
	if SiteNames {
		s = site(2)
	}
	m.st.Unlock(s)
}

// SimOwner reports the simulated goroutine holding the mutex.
//
//go:noinline
func (m *Mutex) SimOwner() *simrt.G { return m.st.Owner() }

// RWMutex is implemented as an exclusive lock (a refinement: every
// behaviour it allows, sync.RWMutex allows).
type RWMutex struct{ Mutex }

//go:noinline
func (m *RWMutex) RLock() { m.Lock() }

//go:noinline
func (m *RWMutex) RUnlock() { m.Unlock() }

type WaitGroup struct{ st simrt.WGState }

//go:noinline
func (w *WaitGroup) Add(d int) { w.st.Add("wg.Add", d) }

//go:noinline
func (w *WaitGroup) Done() { w.st.Add("wg.Done", -1) }

//go:noinline
func (w *WaitGroup) Wait() {
	s := "wg.Wait"
	if SiteNames {
		s = site(2)
	}
	w.st.Wait(s)
}

//go:noinline
func (w *WaitGroup) SimN() int { return w.st.N() }

type Once struct{ st simrt.OnceState }

//go:noinline
func (o *Once) Do(f func()) { o.st.Do("once", f) }

// ---- the rest of package sync, so that a change to the code under test
// that starts using it still builds in the instrumented copy ----

// Map and Pool never block: the real ones serve (the simulator runs one
// goroutine at a time, and in -race builds their internal synchronisation is
// what the detector should see).
type (
	Map  = sync.Map
	Pool = sync.Pool
)

// TryLock takes the lock if it is free.
//
//go:noinline
func (m *Mutex) TryLock() bool { return m.st.TryLock(site(1)) }

// TryLock / TryRLock / RLocker of RWMutex (readers are serialised like writers).
func (m *RWMutex) TryRLock() bool  { return m.TryLock() }
func (m *RWMutex) RLocker() Locker { return (*rlocker)(m) }

type rlocker RWMutex

func (r *rlocker) Lock()   { (*RWMutex)(r).RLock() }
func (r *rlocker) Unlock() { (*RWMutex)(r).RUnlock() }

// Cond is a condition variable over a shimmed Locker: Wait releases the
// lock and parks at a decision point until a later Signal or Broadcast.
type Cond struct {
	L       Locker
	waiters int
	tickets int
	gen     int
}

func NewCond(l Locker) *Cond { return &Cond{L: l} }

//go:noinline
func (c *Cond) Wait() {
	c.waiters++
	my := c.gen
	c.L.Unlock()
	simrt.Wait("cond.Wait", func() bool { return c.gen != my || c.tickets > 0 })
	if c.gen == my {
		c.tickets--
	}
	c.waiters--
	c.L.Lock()
}

//go:noinline
func (c *Cond) Signal() {
	if c.waiters > c.tickets {
		c.tickets++
	}
	simrt.Yield("cond.Signal")
}

//go:noinline
func (c *Cond) Broadcast() {
	c.gen++
	c.tickets = 0
	simrt.Yield("cond.Broadcast")
}

// OnceFunc, OnceValue and OnceValues as in Go 1.21.
func OnceFunc(f func()) func() {
	var o Once
	return func() { o.Do(f) }
}

func OnceValue[T any](f func() T) func() T {
	var o Once
	var v T
	return func() T { o.Do(func() { v = f() }); return v }
}

func OnceValues[T1, T2 any](f func() (T1, T2)) func() (T1, T2) {
	var o Once
	var a T1
	var b T2
	return func() (T1, T2) { o.Do(func() { a, b = f() }); return a, b }
}
