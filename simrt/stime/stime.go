// Package stime is the stand-in for package time in the instrumented copy
// of the code under test.  Types are aliases of the real ones, so exported
// signatures are unchanged; the clock, sleeps and timers are simulated.
package stime

import (
	"time"

	"verif.local/simrt"
)

type (
	Time     = time.Time
	Duration = time.Duration
	Month    = time.Month
	Weekday  = time.Weekday
	Location = time.Location
)

const (
	Nanosecond  = time.Nanosecond
	Microsecond = time.Microsecond
	Millisecond = time.Millisecond
	Second      = time.Second
	Minute      = time.Minute
	Hour        = time.Hour
)

var UTC = time.UTC

//go:noinline
func Now() Time {
	if s := simrt.Current(); s != nil {
		return s.NowTime()
	}
	return time.Now()
}

//go:noinline
func Since(t Time) Duration { return Now().Sub(t) }

//go:noinline
func Until(t Time) Duration { return t.Sub(Now()) }

func Unix(sec, nsec int64) Time { return time.Unix(sec, nsec) }
func Date(year int, month Month, day, hour, min, sec, nsec int, loc *Location) Time {
	return time.Date(year, month, day, hour, min, sec, nsec, loc)
}

//go:noinline
func Sleep(d Duration) {
	if simrt.Current() == nil {
		time.Sleep(d)
		return
	}
	SleepCalls++
	SleepTotal += d
	simrt.Sleep("time.Sleep", d)
}

// SleepCalls and SleepTotal let a harness observe padding sleeps.
var (
	SleepCalls int
	SleepTotal Duration
)

type Timer struct {
	C  <-chan Time
	st *simrt.TimerState
	rt *time.Timer
}

//go:noinline
func NewTimer(d Duration) *Timer {
	if st := simrt.NewTimer(d, nil); st != nil {
		return &Timer{C: st.C, st: st}
	}
	rt := time.NewTimer(d)
	return &Timer{C: rt.C, rt: rt}
}

//go:noinline
func AfterFunc(d Duration, f func()) *Timer {
	if st := simrt.NewTimer(d, f); st != nil {
		return &Timer{st: st}
	}
	return &Timer{rt: time.AfterFunc(d, f)}
}

//go:noinline
func After(d Duration) <-chan Time { return NewTimer(d).C }

//go:noinline
func (t *Timer) Stop() bool {
	if t.st != nil {
		return t.st.Stop()
	}
	return t.rt.Stop()
}

//go:noinline
func (t *Timer) Reset(d Duration) bool {
	if t.st != nil {
		return t.st.Reset(d)
	}
	return t.rt.Reset(d)
}
