// Package stime is the stand-in for package time in the instrumented copy
// of the code under test.  Types are aliases of the real ones, so exported
// signatures are unchanged; the clock, sleeps and timers are simulated.
package stime

import (
	"time"

	"verif.local/simrt"
)

type (
	Time     = time.Time
	Duration = time.Duration
	Month    = time.Month
	Weekday  = time.Weekday
	Location = time.Location
)

const (
	Nanosecond  = time.Nanosecond
	Microsecond = time.Microsecond
	Millisecond = time.Millisecond
	Second      = time.Second
	Minute      = time.Minute
	Hour        = time.Hour
)

var UTC = time.UTC

//go:noinline
func Now() Time {
	if s := simrt.Current(); s != nil {
		return s.NowTime()
	}
	return time.Now()
}

//go:noinline
func Since(t Time) Duration { return Now().Sub(t) }

//go:noinline
func Until(t Time) Duration { return t.Sub(Now()) }

func Unix(sec, nsec int64) Time { return time.Unix(sec, nsec) }
func Date(year int, month Month, day, hour, min, sec, nsec int, loc *Location) Time {
	return time.Date(year, month, day, hour, min, sec, nsec, loc)
}

//go:noinline
func Sleep(d Duration) {
	if simrt.Current() == nil {
		time.Sleep(d)
		return
	}
	SleepCalls++
	SleepTotal += d
	simrt.Sleep("time.Sleep", d)
}

// SleepCalls and SleepTotal let a harness observe padding sleeps.
var (
	SleepCalls int
	SleepTotal Duration
)

type Timer struct {
	C  <-chan Time
	st *simrt.TimerState
	rt *time.Timer
}

//go:noinline
func NewTimer(d Duration) *Timer {
	if st := simrt.NewTimer(d, nil); st != nil {
		return &Timer{C: st.C, st: st}
	}
	rt := time.NewTimer(d)
	return &Timer{C: rt.C, rt: rt}
}

//go:noinline
func AfterFunc(d Duration, f func()) *Timer {
	if st := simrt.NewTimer(d, f); st != nil {
		return &Timer{st: st}
	}
	return &Timer{rt: time.AfterFunc(d, f)}
}

//go:noinline
func After(d Duration) <-chan Time { return NewTimer(d).C }

//go:noinline
func (t *Timer) Stop() bool {
	if t.st != nil {
		return t.st.Stop()
	}
	return t.rt.Stop()
}

//go:noinline
func (t *Timer) Reset(d Duration) bool {
	if t.st != nil {
		return t.st.Reset(d)
	}
	return t.rt.Reset(d)
}

// Ticker is a simulated time.Ticker.
type Ticker struct {
	C  <-chan Time
	st *simrt.TimerState
	rt *time.Ticker
}

//go:noinline
func NewTicker(d Duration) *Ticker {
	if d <= 0 {
		panic("non-positive interval for NewTicker")
	}
	if st := simrt.NewTimer(d, nil); st != nil {
		st.Period = d
		return &Ticker{C: st.C, st: st}
	}
	rt := time.NewTicker(d)
	return &Ticker{C: rt.C, rt: rt}
}

//go:noinline
func Tick(d Duration) <-chan Time {
	if d <= 0 {
		return nil
	}
	return NewTicker(d).C
}

//go:noinline
func (t *Ticker) Stop() {
	if t.st != nil {
		t.st.Period = 0
		t.st.Stop()
		return
	}
	t.rt.Stop()
}

//go:noinline
func (t *Ticker) Reset(d Duration) {
	if t.st != nil {
		t.st.Period = d
		t.st.Reset(d)
		return
	}
	t.rt.Reset(d)
}

// ---- pass-through for the parts of package time that do not read the clock ----

type ParseError = time.ParseError

const (
	Layout      = time.Layout
	ANSIC       = time.ANSIC
	UnixDate    = time.UnixDate
	RFC822      = time.RFC822
	RFC1123     = time.RFC1123
	RFC3339     = time.RFC3339
	RFC3339Nano = time.RFC3339Nano
	Kitchen     = time.Kitchen
	Stamp       = time.Stamp
	StampMilli  = time.StampMilli
	StampMicro  = time.StampMicro
	StampNano   = time.StampNano
	DateTime    = time.DateTime
	DateOnly    = time.DateOnly
	TimeOnly    = time.TimeOnly
)

const (
	January   = time.January
	February  = time.February
	March     = time.March
	April     = time.April
	May       = time.May
	June      = time.June
	July      = time.July
	August    = time.August
	September = time.September
	October   = time.October
	November  = time.November
	December  = time.December
)

const (
	Sunday    = time.Sunday
	Monday    = time.Monday
	Tuesday   = time.Tuesday
	Wednesday = time.Wednesday
	Thursday  = time.Thursday
	Friday    = time.Friday
	Saturday  = time.Saturday
)

var Local = time.Local

func ParseDuration(s string) (Duration, error)    { return time.ParseDuration(s) }
func Parse(layout, value string) (Time, error)    { return time.Parse(layout, value) }
func UnixMilli(msec int64) Time                   { return time.UnixMilli(msec) }
func UnixMicro(usec int64) Time                   { return time.UnixMicro(usec) }
func FixedZone(name string, offset int) *Location { return time.FixedZone(name, offset) }
func LoadLocation(name string) (*Location, error) { return time.LoadLocation(name) }
func ParseInLocation(l, v string, loc *Location) (Time, error) {
	return time.ParseInLocation(l, v, loc)
}
