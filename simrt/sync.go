package simrt

import (
	"runtime"
	"sync"
)

// MutexState is the simulator's view of a shimmed mutex.  It wraps a real
// mutex that is locked and unlocked at grant and release time, so the race
// detector sees exactly the happens-before edges the code under test makes.
type MutexState struct {
	owner *G
	real  sync.Mutex
	// outside is true while the real mutex is held by code running outside
	// any simulation (package initialisers, the driver between runs).
	outside bool
}

//go:noinline
func (m *MutexState) Lock(site string) {
	s := cur
	if s == nil || s.running == nil {
		m.real.Lock()
		m.outside = true
		return
	}
	if s.poisoned {
		runtime.Goexit()
	}
	g := s.point(op{kind: opLock, site: site, mu: m})
	if m.owner != g {
		panic("simrt: lock granted to wrong goroutine")
	}
	m.real.Lock()
}

// TryLock takes the lock if nobody holds it (a decision point either way).
//
//go:noinline
func (m *MutexState) TryLock(site string) bool {
	s := cur
	if s == nil || s.running == nil {
		if m.real.TryLock() {
			m.outside = true
			return true
		}
		return false
	}
	if s.poisoned {
		runtime.Goexit()
	}
	s.point(op{kind: opYield, site: site})
	if m.owner != nil || !m.real.TryLock() {
		return false
	}
	m.owner = s.running
	return true
}

//go:noinline
func (m *MutexState) Unlock(site string) {
	s := cur
	if s == nil || s.running == nil {
		m.outside = false
		m.real.Unlock()
		return
	}
	if s.poisoned {
		// a poisoned goroutine is running its deferred calls: release what
		// it really holds, ignore the rest.
		if m.owner != nil && m.owner.goid == goid() {
			m.owner = nil
			m.real.Unlock()
		}
		return
	}
	if m.owner == nil {
		panic("sync: unlock of unlocked mutex")
	}
	m.owner = nil
	m.real.Unlock()
	s.point(op{kind: opYield, site: site})
}

// Owner returns the goroutine holding the lock (nil if free).
//
//go:noinline
func (m *MutexState) Owner() *G { return m.owner }

// WGState is the simulator's view of a shimmed WaitGroup.
type WGState struct {
	n    int
	real sync.WaitGroup
}

//go:noinline
func (w *WGState) Add(site string, d int) {
	w.n += d
	if w.n < 0 {
		panic("sync: negative WaitGroup counter")
	}
	w.real.Add(d)
}

//go:noinline
func (w *WGState) Wait(site string) {
	s := cur
	if s == nil || s.running == nil {
		w.real.Wait()
		return
	}
	if s.poisoned {
		runtime.Goexit()
	}
	s.point(op{kind: opWG, site: site, wg: w})
	w.real.Wait()
}

// N returns the current counter.
//
//go:noinline
func (w *WGState) N() int { return w.n }

// OnceState is the simulator's view of a shimmed Once.
type OnceState struct {
	done bool
	m    MutexState
}

//go:noinline
func (o *OnceState) Do(site string, f func()) {
	if o.done {
		return
	}
	o.m.Lock(site)
	defer o.m.Unlock(site)
	if !o.done {
		defer func() { o.done = true }()
		f()
	}
}
