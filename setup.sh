#!/bin/bash
# Offline setup: nothing is fetched.  Verifies the toolchain and that the
# harness modules resolve from the module cache; warms the build cache.
set -e
cd "$(dirname "$0")"
export GOFLAGS=-mod=mod GOPROXY=off GOSUMDB=off GOTOOLCHAIN=local
go version
go vet ./simrt/ ./simrewrite/ >/dev/null
go test ./simrt/ >/dev/null
echo "setup ok"
