#!/bin/bash
# import_mutant_wasm.sh <source _mutants/mN dir> <seeded name> <property>
# As import_mutant.sh, for demonstrations that are js/wasm tests run under node.
set -u
SRC=$1; NAME=$2; PROP=$3
export GOFLAGS=-mod=mod GOPROXY=off GOSUMDB=off GOTOOLCHAIN=local
WT=$(mktemp -d /tmp/confirm-XXXX); rmdir $WT
git -C /repo worktree add -q $WT HEAD || exit 2
trap "git -C /repo worktree remove --force $WT" EXIT
cd $WT
DEMO=$(ls $SRC/*_test.go | head -1)
EXEC="$(go env GOROOT)/misc/wasm/go_js_wasm_exec"
RUNPAT=$(grep -o "^func Test[A-Za-z0-9_]*" $DEMO | sed 's/func //' | paste -sd'|')
wt() { GOOS=js GOARCH=wasm go test -vet=off -count=1 -exec="$EXEC" -run "^($RUNPAT)\$" . ; }
cp $DEMO zz_demo_test.go
if wt > /tmp/confirm-base.txt 2>&1; then BASE=pass; else BASE=FAIL; fi
echo "   demo on unmodified tree (node): $BASE"
rm zz_demo_test.go
git apply $SRC/patch.diff || { echo "patch does not apply"; exit 1; }
if go build ./... && GOOS=js GOARCH=wasm go build . && [ -z "$(go test -vet=off -count=1 ./... 2>&1 | grep -v 'no test files' | grep -v '^ok')" ]; then SUITE=pass; else SUITE=FAIL; fi
echo "   build (native + wasm) and existing suite with mutant: $SUITE"
cp $DEMO zz_demo_test.go
if wt > /tmp/confirm-mut.txt 2>&1; then MUT=pass; else MUT=FAIL; fi
echo "   demo with mutant (node): $MUT (expected FAIL)"
if [ $BASE = pass ] && [ $SUITE = pass ] && [ $MUT = FAIL ]; then
  mkdir -p /verif/seeded/$NAME
  cp $SRC/patch.diff /verif/seeded/$NAME/patch.diff; cp $DEMO /verif/seeded/$NAME/demo_test.go; cp $SRC/README.md /verif/seeded/$NAME/README.md
  python3 - "$NAME" "$PROP" <<'PY'
import json,sys,subprocess
name,prop=sys.argv[1:3]
readme=open('/verif/seeded/%s/README.md'%name).read()
head=subprocess.run(["git","-C","/repo","rev-parse","--short","HEAD"],stdout=subprocess.PIPE,text=True).stdout.strip()
json.dump({"property":prop,"also":[],"needs":readme[:1500],
 "confirmed":{"base_commit":head,"ran":["git apply patch.diff in a scratch worktree of /repo",
  "go build ./... ; GOOS=js GOARCH=wasm go build . ; go test -vet=off -count=1 ./... (all pass with the change)",
  "GOOS=js GOARCH=wasm go test -exec=$(go env GOROOT)/misc/wasm/go_js_wasm_exec -run <demo> . with demo_test.go copied in (runs under node): passes without the change, fails with it"]},
 "origin":"fresh sub-agent given only the property text and a scratch worktree"},open('/verif/seeded/%s/meta.json'%name,'w'),indent=1)
PY
  echo "KEPT as seeded/$NAME"
else
  echo "REJECTED"; tail -5 /tmp/confirm-base.txt /tmp/confirm-mut.txt
fi
