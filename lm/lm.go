// Package lm is the shadow model of a tcell logical screen: what the
// application last set in every cell, plus the rendering rule of property
// C01 (rows scanned left to right; a wide rune covers two columns and hides
// the next cell; a wide rune in the last column and every non-printing
// primary is a blank).  It is written from the property statement and the
// public API documentation, not from cell.go.
package lm

import (
	"math"
	"unicode"

	"github.com/gdamore/tcell/v2"
	runewidth "github.com/mattn/go-runewidth"
)

// Style is a transparent mirror of tcell.Style (whose fields cannot be read
// back through the public API).
type Style struct {
	Fg, Bg tcell.Color
	Attrs  tcell.AttrMask // bold, blink, reverse, dim, italic, strikethrough
	Ul     tcell.UnderlineStyle
	UlC    tcell.Color
	URL    string
	URLID  string
}

// Build makes the tcell.Style.
func (s Style) Build() tcell.Style {
	st := tcell.StyleDefault.Foreground(s.Fg).Background(s.Bg).Attributes(s.Attrs)
	if s.Ul != tcell.UnderlineStyleNone {
		st = st.Underline(s.Ul)
	}
	if s.UlC != tcell.ColorDefault {
		st = st.Underline(s.UlC)
	}
	if s.URL != "" {
		st = st.Url(s.URL)
	}
	if s.URLID != "" {
		st = st.UrlId(s.URLID)
	}
	return st
}

// IsZero reports whether the style is the zero Style, which stands for
// "the screen's default style".
func (s Style) IsZero() bool { return s == Style{} }

type Cell struct {
	R      rune
	Comb   []rune
	St     Style
	Locked bool
	// Unknown: the statement does not say what this cell shows right now
	// (content outside the overlap of racing resizes, or a default-styled
	// cell painted under an earlier default style).
	Unknown    bool
	StyleUncon bool
	// what was painted last, and under which default style
	PaintOK   bool
	PaintR    rune
	PaintComb []rune
	PaintSt   Style
	PaintDef  Style
	PaintDefs []Style
	// Dirtied: the stored rune, combining runes or style were changed (even
	// transiently) since the harness last cleared the flag at a Show.
	Dirtied  bool
	WideDirt bool
	Ver      int
}

type Model struct {
	W, H   int
	Cells  []Cell
	Def    Style
	CurX   int
	CurY   int
	CurSt  tcell.CursorStyle
	CurCol tcell.Color
	ver    int
}

func New(w, h int) *Model {
	return &Model{W: w, H: h, Cells: make([]Cell, w*h), CurX: -1, CurY: -1, CurCol: tcell.ColorNone}
}

func (m *Model) In(x, y int) bool  { return x >= 0 && y >= 0 && x < m.W && y < m.H }
func (m *Model) At(x, y int) *Cell { return &m.Cells[y*m.W+x] }

func mergeNone(n, old Style) Style {
	if n.Fg == tcell.ColorNone {
		n.Fg = old.Fg
	}
	if n.Bg == tcell.ColorNone {
		n.Bg = old.Bg
	}
	return n
}

// SetContent mirrors Screen.SetContent: out of range is ignored; the
// combining slice is copied; ColorNone keeps the cell's previous colour.
func (m *Model) SetContent(x, y int, r rune, comb []rune, st Style) {
	if !m.In(x, y) {
		return
	}
	c := m.At(x, y)
	m.ver++
	nst := mergeNone(st, c.St)
	if c.R != r || string(c.Comb) != string(comb) || c.St != nst || r == 0 {
		// (storing the zero rune over a never-set cell is counted as a
		// change: the statement is silent on it)
		c.Dirtied = true
		if Width(c.R) == 2 || Width(r) == 2 {
			c.WideDirt = true // a wide rune was stored or replaced here (even transiently)
		}
	}
	c.R = r
	c.Comb = append([]rune(nil), comb...)
	c.St = nst
	c.Unknown = false
	c.Ver = m.ver
}

// Fill mirrors Screen.Fill.
func (m *Model) Fill(r rune, st Style) {
	m.ver++
	for i := range m.Cells {
		c := &m.Cells[i]
		nst := mergeNone(st, c.St)
		if c.R != r || len(c.Comb) != 0 || c.St != nst {
			c.Dirtied = true
		}
		c.R = r
		c.Comb = nil
		c.St = nst
		c.Unknown = false
		c.Ver = m.ver
	}
}

// SetStyle mirrors Screen.SetStyle: default-styled cells painted earlier
// keep whatever default they were painted with until repainted.
func (m *Model) SetStyle(st Style) { m.Def = st }

// Painted records a Show (all=false: cells whose content differs from what
// was painted last are repainted, under the current default style) or a
// full repaint (all=true: Sync, resize redraw).  A default-styled cell that
// is not repainted keeps the default style it was painted with.
func (m *Model) Painted(all bool) {
	hidden := make([]bool, len(m.Cells))
	for y := 0; y < m.H; y++ {
		for x, g := range m.Row(y) {
			hidden[y*m.W+x] = g.Hidden
		}
	}
	for i := range m.Cells {
		c := &m.Cells[i]
		if c.Locked {
			continue
		}
		if hidden[i] {
			// covered by the wide rune to its left: not painted, so it
			// keeps whatever it was painted with before
			continue
		}
		r := c.R
		if r == 0 {
			r = ' ' // a cell that was never set is a blank
		}
		if all || !c.PaintOK || c.PaintR != r || string(c.PaintComb) != string(c.Comb) || c.PaintSt != c.St {
			c.PaintOK, c.PaintR, c.PaintComb, c.PaintSt, c.PaintDef = true, r, c.Comb, c.St, m.Def
			c.PaintDefs = append(c.PaintDefs[:0], m.Def)
		} else {
			// not certainly repainted, but the library may repaint it (it
			// does after a transient change): the default in force now is
			// one more style the cell may legitimately show
			seen := false
			for _, d := range c.PaintDefs {
				if d == m.Def {
					seen = true
				}
			}
			if !seen {
				c.PaintDefs = append(c.PaintDefs, m.Def)
			}
		}
	}
}

// ResetPaint forgets what was painted (the library rebuilt its cell buffer:
// every cell is painted afresh by the next Show).
func (m *Model) ResetPaint() {
	for i := range m.Cells {
		m.Cells[i].PaintOK = false
		m.Cells[i].PaintDefs = nil
	}
}

// Repainted is Painted(true).
func (m *Model) Repainted() { m.Painted(true) }

func (m *Model) Lock(x, y, w, h int, lock bool) {
	for j := y; j < y+h; j++ {
		for i := x; i < x+w; i++ {
			if m.In(i, j) {
				m.At(i, j).Locked = lock
				if !lock {
					// an unlock marks the cell for repainting, locked or not
					m.ver++
					m.At(i, j).Ver = m.ver
					m.At(i, j).Dirtied = true
				}
			}
		}
	}
}

// Resize mirrors a window size change: the overlap keeps its content, new
// cells are empty.  known says whether the library is known to have seen
// exactly this sequence of sizes (quiet resize); if not, everything outside
// the smallest size seen is Unknown until set again.
func (m *Model) Resize(w, h int) {
	n := make([]Cell, w*h)
	for y := 0; y < h && y < m.H; y++ {
		for x := 0; x < w && x < m.W; x++ {
			n[y*w+x] = m.Cells[y*m.W+x]
		}
	}
	m.Cells, m.W, m.H = n, w, h
}

// Width is the display width of a primary rune (trusted base: go-runewidth
// with East-Asian width off, as the library documents).
func Width(r rune) int {
	if r < ' ' {
		return 0
	}
	if unicode.Is(unicode.Cf, r) && !unicode.Is(unicode.Prepended_Concatenation_Mark, r) {
		return 0 // format characters are non-printing (C09)
	}
	return widthCond.RuneWidth(r)
}

// widthCond: East-Asian ambiguous width off, as the library documents -
// independently of the process-wide default, which depends on the locale the
// process was started in and which the library is expected to override.
var widthCond = func() *runewidth.Condition {
	c := runewidth.NewCondition()
	c.EastAsianWidth = false
	return c
}()

// Glyph is what one screen column should show.
type Glyph struct {
	R      rune
	Comb   []rune
	Width  int // 1 or 2; 0 = second column of the wide glyph to the left
	St     Style
	X      int // model cell the glyph comes from
	Hidden bool
	// AltInvalid: the primary is not a Unicode scalar value; the statement
	// says blank, U+FFFD is tolerated (see DESIGN §4 C09).
	AltInvalid bool
	Skip       bool // locked or unknown: not compared
	StyleUncon bool
	// AltSt: a default-styled cell may still show the default style it was
	// painted with (it is repainted only when its content changes).
	AltSt []Style
}

// Row applies the rendering rule to row y.
func (m *Model) Row(y int) []Glyph {
	out := make([]Glyph, m.W)
	for x := 0; x < m.W; {
		c := m.At(x, y)
		st := c.St
		if st.IsZero() {
			st = m.Def
		}
		r := c.R
		w := Width(r)
		g := Glyph{R: r, Comb: c.Comb, Width: w, St: st, X: x, Skip: c.Locked || c.Unknown, StyleUncon: c.StyleUncon}
		if c.St.IsZero() && c.PaintOK {
			g.AltSt = c.PaintDefs
		}
		if w < 1 || r < ' ' {
			g.R, g.Width, w = ' ', 1, 1
			if r > 0x10FFFF || (r >= 0xD800 && r <= 0xDFFF) {
				g.AltInvalid = true
			}
		}
		if x+w > m.W {
			// a wide rune in the last column is shown as a blank
			g.R, g.Comb, g.Width, w = ' ', nil, 1, 1
		}
		out[x] = g
		if w == 2 {
			out[x+1] = Glyph{Width: 0, St: st, X: x, Hidden: true, Skip: g.Skip || m.At(x+1, y).Locked}
			if m.At(x+1, y).Locked {
				out[x].Skip = true
			}
		}
		x += w
	}
	return out
}

// ---- colour resolution ----

// PaletteRGB is the standard xterm palette: 16 ANSI colours (W3C values
// for the basic sixteen), the 6x6x6 cube, 24 greys.
func PaletteRGB(n int) (int, int, int) {
	basic := [16][3]int{{0, 0, 0}, {128, 0, 0}, {0, 128, 0}, {128, 128, 0}, {0, 0, 128}, {128, 0, 128}, {0, 128, 128}, {192, 192, 192},
		{128, 128, 128}, {255, 0, 0}, {0, 255, 0}, {255, 255, 0}, {0, 0, 255}, {255, 0, 255}, {0, 255, 255}, {255, 255, 255}}
	switch {
	case n < 16:
		return basic[n][0], basic[n][1], basic[n][2]
	case n < 232:
		n -= 16
		lv := [6]int{0, 95, 135, 175, 215, 255}
		return lv[n/36], lv[(n/6)%6], lv[n%6]
	default:
		v := 8 + 10*(n-232)
		return v, v, v
	}
}

func lin(c float64) float64 {
	if c <= 0.04045 {
		return c / 12.92
	}
	return math.Pow((c+0.055)/1.055, 2.4)
}

func labf(t float64) float64 {
	if t > 6.0/29*6.0/29*6.0/29 {
		return math.Cbrt(t)
	}
	return t/(3*6.0/29*6.0/29) + 4.0/29
}

// Lab converts 8-bit sRGB to CIE L*a*b* (D65).
func Lab(r, g, b int) (float64, float64, float64) {
	R, G, B := lin(float64(r)/255), lin(float64(g)/255), lin(float64(b)/255)
	x := 0.4124564*R + 0.3575761*G + 0.1804375*B
	y := 0.2126729*R + 0.7151522*G + 0.0721750*B
	z := 0.0193339*R + 0.1191920*G + 0.9503041*B
	fx, fy, fz := labf(x/0.95047), labf(y/1.0), labf(z/1.08883)
	return 1.16*fy - 0.16, 5.0 * (fx - fy), 2.0 * (fy - fz)
}

// Nearest returns every palette index 0..n-1 at minimal CIE76 distance
// from the colour (ties and near-ties within eps are all acceptable).
func Nearest(r, g, b, n int) []int {
	l0, a0, b0 := Lab(r, g, b)
	best := math.Inf(1)
	d := make([]float64, n)
	for i := 0; i < n; i++ {
		pr, pg, pb := PaletteRGB(i)
		l1, a1, b1 := Lab(pr, pg, pb)
		d[i] = math.Sqrt((l0-l1)*(l0-l1) + (a0-a1)*(a0-a1) + (b0-b1)*(b0-b1))
		if d[i] < best {
			best = d[i]
		}
	}
	var out []int
	for i := 0; i < n; i++ {
		if d[i] <= best+1e-4 { // 0.01 ΔE: below the spread between published sRGB matrices
			out = append(out, i)
		}
	}
	return out
}
