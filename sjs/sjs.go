// Package sjs stands in for syscall/js when the js/wasm screen is compiled
// natively for the simulation.  It records every call made into
// "JavaScript" and keeps the callbacks the Go side registers, so that the
// simulated host can invoke them between application steps.
package sjs

import "fmt"

// Value mimics js.Value for the few uses the backend makes of it.
type Value struct {
	v interface{}
}

// Func mimics js.Func.
type Func struct {
	Fn func(this Value, args []Value) interface{}
}

func (f Func) Release() {}

// FuncOf mimics js.FuncOf.
func FuncOf(fn func(this Value, args []Value) interface{}) Func { return Func{Fn: fn} }

// ValueOf wraps a Go value.
func ValueOf(x interface{}) Value { return Value{v: x} }

func (v Value) Int() int {
	switch x := v.v.(type) {
	case int:
		return x
	case int32:
		return int(x)
	case float64:
		return int(x)
	}
	panic(fmt.Sprintf("sjs: Value.Int on %T", v.v))
}

func (v Value) Bool() bool {
	if b, ok := v.v.(bool); ok {
		return b
	}
	panic(fmt.Sprintf("sjs: Value.Bool on %T", v.v))
}

func (v Value) String() string {
	if s, ok := v.v.(string); ok {
		return s
	}
	return fmt.Sprint(v.v)
}

// Call is one recorded call into JavaScript.
type Call struct {
	Name string
	Args []interface{}
}

// Host is the simulated page: what the Go side has set and called.
type Host struct {
	Props map[string]interface{}
	Calls []Call
	// OnCall, if set, sees every call as it happens.
	OnCall func(c Call)
}

var host = &Host{Props: map[string]interface{}{}}

// Reset installs a fresh host (one per simulated run).
func Reset() *Host {
	host = &Host{Props: map[string]interface{}{}}
	return host
}

type global struct{}

// Global mimics js.Global().
func Global() global { return global{} }

func (global) Set(p string, x interface{}) { host.Props[p] = x }

func (global) Call(name string, args ...interface{}) Value {
	c := Call{Name: name, Args: args}
	host.Calls = append(host.Calls, c)
	if host.OnCall != nil {
		host.OnCall(c)
	}
	return Value{}
}

// Invoke calls a registered callback the way the page would; it reports
// whether a function is registered under that name.
func (h *Host) Invoke(name string, args ...interface{}) bool {
	f, ok := h.Props[name].(Func)
	if !ok {
		return false
	}
	vs := make([]Value, len(args))
	for i, a := range args {
		vs[i] = Value{v: a}
	}
	f.Fn(Value{}, vs)
	return true
}
