// Package vt is the reference terminal of the verification harness: a strict
// ECMA-48 tokenizer and a VT/xterm-style screen interpreter, written from the
// standards (ECMA-48, DEC STD 070 / VT220 manuals, xterm ctlseqs), not from
// tcell.  The tokenizer knows nothing about which sequences tcell uses; any
// byte stream that is not a sequence of complete control functions and
// printable characters in the configured character set is a syntax error.
package vt

import (
	"fmt"
	"strconv"
	"strings"
	"unicode"
	"unicode/utf8"

	runewidth "github.com/mattn/go-runewidth"
	"golang.org/x/text/encoding"
	"golang.org/x/text/transform"
)

// ColorKind says how a cell colour was selected.
type ColorKind uint8

const (
	ColDefault ColorKind = iota
	ColPalette
	ColRGB
)

type Color struct {
	Kind ColorKind
	V    int // palette index, or 0xRRGGBB
}

func (c Color) String() string {
	switch c.Kind {
	case ColPalette:
		return fmt.Sprintf("pal%d", c.V)
	case ColRGB:
		return fmt.Sprintf("#%06x", c.V)
	}
	return "default"
}

// Attribute bits of a cell.
const (
	AttrBold = 1 << iota
	AttrDim
	AttrItalic
	AttrBlink
	AttrReverse
	AttrStrike
)

type Pen struct {
	Fg, Bg  Color
	Attr    int
	Ul      int // 0 none, 1 single, 2 double, 3 curly, 4 dotted, 5 dashed
	UlColor Color
	Link    string // OSC 8 URI ("" = none)
	LinkID  string
}

type Cell struct {
	R     rune
	Comb  []rune
	Width int // 1 or 2 for a cell that starts a glyph; 0 for the second column of a wide glyph
	Pen   Pen
	Stamp int  // index of the output block that last printed into this cell
	Alt   bool // glyph was selected through an alternate character set
	AltB  byte // the byte that selected it
	Junk  bool // content placed by the harness as "arbitrary previous contents"
}

func (c *Cell) Text() string {
	if c.Width == 0 {
		return ""
	}
	return string(c.R) + string(c.Comb)
}

type parseState uint8

const (
	stGround parseState = iota
	stEsc
	stEscInter
	stCSI
	stOSC
	stOSCEsc
	stStr // DCS/SOS/PM/APC
	stStrEsc
	stCharset // ESC ( x : waiting for the final of a designation
)

// Term is the reference terminal.
type Term struct {
	W, H        int
	cells       []Cell
	alt         []Cell // the other screen buffer
	CX, CY      int
	wrapPending bool
	Pen         Pen
	saved       struct {
		cx, cy int
		pen    Pen
		ok     bool
	}

	// mode registers
	Modes         map[int]bool // DEC private modes that were set/reset at least once
	AltScreen     bool
	CursorVisible bool
	AutoWrap      bool
	KeypadApp     bool
	CursorStyle   int    // DECSCUSR parameter last selected (0 = default)
	CursorColor   string // "" = default; else the OSC 12 payload
	Title         string
	TitleStack    []string
	TitleSet      bool
	G             [2]byte // designated sets: 'B' ascii, '0' DEC special graphics
	Shift         int     // 0 = G0 in GL, 1 = G1
	PCFont        bool    // SGR 11/12 alternate font active
	Bells         int
	Clipboard     []string
	WinOps        []string
	LinuxCursor   string

	// bookkeeping
	Block       int // current output block index (for stamps)
	Unmodelled  map[string]int
	Errors      []string // syntax errors (C09)
	Printed     int      // printable characters placed on the screen
	Scrolled    int
	PrintBytes  []byte // the bytes that arrived as printable payload since ResetPayload
	recordBytes bool

	// configuration
	Dec     encoding.Encoding // nil = UTF-8
	decoder *encoding.Decoder
	PCAlt   bool // description uses the PC alternate font (SGR 11/12) for its ACS
	Lenient bool // non-ECMA-48 family: interpret nothing, check syntax only

	altByte      byte
	lastX, lastY int
	lastOK       bool // position of the glyph printed last, until the cursor is moved explicitly

	st      parseState
	inter   []byte
	params  []byte
	osc     []byte
	strKind byte
	u8      []byte // pending bytes of a multi-byte character
}

// New creates a w×h terminal in its power-on state.  dec is the character
// set of the locale (nil for UTF-8).
func New(w, h int, dec encoding.Encoding) *Term {
	t := &Term{W: w, H: h, Dec: dec}
	t.cells = make([]Cell, w*h)
	t.Modes = map[int]bool{}
	t.Unmodelled = map[string]int{}
	t.G = [2]byte{'B', 'B'}
	t.CursorVisible = true
	t.AutoWrap = true
	if dec != nil {
		t.decoder = dec.NewDecoder()
	}
	for i := range t.cells {
		t.cells[i] = Cell{R: ' ', Width: 1}
	}
	return t
}

func (t *Term) At(x, y int) *Cell { return &t.cells[y*t.W+x] }

// AbortSequence drops a partially received control sequence or character
// (the writer's output was cut short by an injected fault).
func (t *Term) AbortSequence() {
	t.st = stGround
	t.u8 = t.u8[:0]
}

func (t *Term) InGround() bool { return t.st == stGround && len(t.u8) == 0 }

func (t *Term) errf(format string, args ...interface{}) {
	if len(t.Errors) < 20 {
		t.Errors = append(t.Errors, fmt.Sprintf(format, args...))
	}
}

// RecordPayload turns on recording of the bytes that arrive as printable
// payload (used by the control-byte injection sweep).
func (t *Term) RecordPayload(on bool) { t.recordBytes = on; t.PrintBytes = t.PrintBytes[:0] }

// Resize changes the size like a window resize does: content is kept in the
// overlap, new area is blank, cursor is clamped.
func (t *Term) Resize(w, h int) {
	resize := func(old []Cell) []Cell {
		if old == nil {
			return nil
		}
		n := make([]Cell, w*h)
		for i := range n {
			n[i] = Cell{R: ' ', Width: 1}
		}
		for y := 0; y < h && y < t.H; y++ {
			for x := 0; x < w && x < t.W; x++ {
				n[y*w+x] = old[y*t.W+x]
			}
		}
		return n
	}
	t.cells = resize(t.cells)
	t.alt = resize(t.alt)
	t.W, t.H = w, h
	if t.CX >= w {
		t.CX = w - 1
	}
	if t.CY >= h {
		t.CY = h - 1
	}
	t.wrapPending = false
}

// Corrupt overwrites every cell with junk, as an external program writing
// to the terminal behind the application's back would.
func (t *Term) Corrupt(seed int) {
	for i := range t.cells {
		t.cells[i] = Cell{R: rune('!' + (i*7+seed)%90), Width: 1, Junk: true,
			Pen: Pen{Fg: Color{ColPalette, (i + seed) % 8}, Attr: (i + seed) % 64}}
	}
}

// Write feeds output bytes to the terminal.
func (t *Term) Write(p []byte) {
	for _, b := range p {
		t.put(b)
	}
}

func isC0(b byte) bool { return b < 0x20 }

func (t *Term) put(b byte) {
	switch t.st {
	case stGround:
		t.ground(b)
	case stEsc:
		switch {
		case b == '[':
			t.st = stCSI
			t.params = t.params[:0]
			t.inter = t.inter[:0]
		case b == ']':
			t.st = stOSC
			t.osc = t.osc[:0]
		case b == 'P' || b == 'X' || b == '^' || b == '_':
			t.st = stStr
			t.strKind = b
			t.osc = t.osc[:0]
		case b >= 0x20 && b <= 0x2f:
			t.inter = append(t.inter[:0], b)
			t.st = stEscInter
		case b >= 0x30 && b <= 0x7e:
			t.st = stGround
			t.escFinal(nil, b)
		default:
			t.errf("ESC followed by byte 0x%02x: incomplete or malformed escape sequence", b)
			t.st = stGround
			if b == 0x1b {
				t.st = stEsc
			}
		}
	case stEscInter:
		switch {
		case b >= 0x20 && b <= 0x2f:
			t.inter = append(t.inter, b)
		case b >= 0x30 && b <= 0x7e:
			t.st = stGround
			t.escFinal(t.inter, b)
		default:
			t.errf("ESC %q followed by byte 0x%02x: malformed escape sequence", t.inter, b)
			t.st = stGround
		}
	case stCSI:
		switch {
		case b >= 0x30 && b <= 0x3f:
			if len(t.inter) > 0 {
				t.errf("CSI %q%q: parameter byte %q after an intermediate byte", t.params, t.inter, b)
			}
			t.params = append(t.params, b)
		case b >= 0x20 && b <= 0x2f:
			t.inter = append(t.inter, b)
		case b >= 0x40 && b <= 0x7e:
			t.st = stGround
			t.csi(b)
		default:
			t.errf("CSI %q interrupted by byte 0x%02x: unterminated control sequence", t.params, b)
			t.st = stGround
			if b == 0x1b {
				t.st = stEsc
			}
		}
	case stOSC:
		switch {
		case b == 0x07:
			t.st = stGround
			t.oscDone()
		case b == 0x1b:
			t.st = stOSCEsc
		case b < 0x20 || b == 0x7f:
			t.errf("control byte 0x%02x inside an OSC string %q", b, t.osc)
			t.st = stGround
		default:
			t.osc = append(t.osc, b)
		}
	case stOSCEsc:
		if b == '\\' {
			t.st = stGround
			t.oscDone()
		} else {
			t.errf("OSC string %q: ESC followed by 0x%02x instead of the string terminator", t.osc, b)
			t.st = stGround
		}
	case stStr:
		switch {
		case b == 0x1b:
			t.st = stStrEsc
		case b < 0x20 && b != 0x0a && b != 0x0d && b != 0x09:
			t.errf("control byte 0x%02x inside a control string", b)
			t.st = stGround
		default:
			t.osc = append(t.osc, b)
		}
	case stStrEsc:
		if b == '\\' {
			t.st = stGround
			t.Unmodelled["control string ESC "+string(t.strKind)]++
		} else {
			t.errf("control string: ESC followed by 0x%02x instead of the string terminator", b)
			t.st = stGround
		}
	}
}

func (t *Term) ground(b byte) {
	if len(t.u8) > 0 {
		// inside a multi-byte character
		t.u8 = append(t.u8, b)
		t.tryChar()
		return
	}
	if t.PCFont && t.PCAlt && b != 0x1b {
		// PC alternate font: every byte except ESC is a CP437 glyph
		t.altByte = b
		t.print(rune(0xF000+int(b)), 1, true)
		if t.recordBytes {
			t.PrintBytes = append(t.PrintBytes, b)
		}
		return
	}
	switch {
	case b == 0x1b:
		t.st = stEsc
	case b == 0x07:
		t.Bells++
	case b == 0x08:
		if t.CX > 0 {
			t.CX--
		}
		t.wrapPending = false
		t.lastOK = false
	case b == 0x09:
		t.CX = (t.CX/8 + 1) * 8
		if t.CX >= t.W {
			t.CX = t.W - 1
		}
	case b == 0x0a, b == 0x0b, b == 0x0c:
		t.lineFeed()
	case b == 0x0d:
		t.CX = 0
		t.wrapPending = false
		t.lastOK = false
	case b == 0x0e:
		t.Shift = 1
	case b == 0x0f:
		t.Shift = 0
	case b < 0x20:
		t.errf("unexpected C0 control byte 0x%02x in the output stream", b)
	case b == 0x7f:
		t.errf("DEL (0x7f) in the output stream")
	case b < 0x80:
		if t.recordBytes {
			t.PrintBytes = append(t.PrintBytes, b)
		}
		set := t.G[t.Shift]
		t.altByte = b
		if set == '0' && b >= 0x5f && b <= 0x7e {
			t.print(decGraphics[b-0x5f], 1, true)
			return
		}
		t.print(rune(b), 1, set == '0')
	default:
		t.u8 = append(t.u8, b)
		t.tryChar()
	}
}

// tryChar tries to complete a character from the pending high bytes.
func (t *Term) tryChar() {
	if t.Dec == nil {
		if !utf8.FullRune(t.u8) {
			if len(t.u8) >= 4 {
				t.errf("invalid UTF-8 bytes % x in the output stream", t.u8)
				t.u8 = t.u8[:0]
			}
			return
		}
		r, n := utf8.DecodeRune(t.u8)
		if r == utf8.RuneError && n == 1 {
			t.errf("invalid UTF-8 byte(s) % x in the output stream (raw 8-bit data or a C1 control)", t.u8)
			t.u8 = t.u8[:0]
			return
		}
		if t.recordBytes {
			t.PrintBytes = append(t.PrintBytes, t.u8[:n]...)
		}
		rest := append([]byte(nil), t.u8[n:]...)
		t.u8 = t.u8[:0]
		t.char(r)
		for _, b := range rest {
			t.put(b)
		}
		return
	}
	// legacy character set: find the shortest prefix of the pending bytes
	// that is a complete character (atEOF=false: a truncated multi-byte
	// character reports a short source)
	var dst [16]byte
	for l := 1; l <= len(t.u8); l++ {
		t.decoder.Reset()
		nDst, _, err := t.decoder.Transform(dst[:], t.u8[:l], false)
		if err == transform.ErrShortSrc {
			continue
		}
		if err != nil || nDst == 0 {
			break
		}
		r, _ := utf8.DecodeRune(dst[:nDst])
		if r == utf8.RuneError {
			break
		}
		if t.recordBytes {
			t.PrintBytes = append(t.PrintBytes, t.u8[:l]...)
		}
		rest := append([]byte(nil), t.u8[l:]...)
		t.u8 = t.u8[:0]
		t.char(r)
		for _, b := range rest {
			t.put(b)
		}
		return
	}
	// no prefix decodes: either more bytes are needed or the data is bad
	t.decoder.Reset()
	_, _, err := t.decoder.Transform(dst[:], t.u8, false)
	if err == transform.ErrShortSrc && len(t.u8) < 4 {
		return
	}
	t.errf("bytes % x are not a character of the terminal's character set", t.u8)
	t.u8 = t.u8[:0]
}

func (t *Term) multiByte() bool {
	// a charset is multi-byte if some two-byte input decodes to one rune
	t.decoder.Reset()
	out, err := t.decoder.Bytes([]byte{0xb0, 0xa1})
	return err == nil && utf8.RuneCount(out) == 1 && !strings.ContainsRune(string(out), utf8.RuneError)
}

// char places a decoded character.
func (t *Term) char(r rune) {
	if r >= 0x80 && r <= 0x9f {
		t.errf("C1 control U+%04X in the output stream", r)
		return
	}
	if unicode.IsControl(r) {
		t.errf("control character U+%04X in the output stream", r)
		return
	}
	w := runewidth.RuneWidth(r)
	t.print(r, w, false)
}

func (t *Term) lineFeed() {
	t.wrapPending = false
	t.lastOK = false
	if t.CY == t.H-1 {
		t.scrollUp()
	} else {
		t.CY++
	}
}

func (t *Term) scrollUp() {
	t.Scrolled++
	copy(t.cells, t.cells[t.W:])
	for x := 0; x < t.W; x++ {
		t.cells[(t.H-1)*t.W+x] = Cell{R: ' ', Width: 1, Pen: Pen{Bg: t.Pen.Bg}, Stamp: t.Block}
	}
}

// blankHalf repairs a wide glyph one of whose columns is being overwritten.
func (t *Term) blankHalf(x, y int) {
	c := t.At(x, y)
	if c.Width == 2 && x+1 < t.W {
		n := t.At(x+1, y)
		if n.Width == 0 {
			*n = Cell{R: ' ', Width: 1, Pen: n.Pen, Stamp: n.Stamp}
		}
	}
	if c.Width == 0 && x > 0 {
		p := t.At(x-1, y)
		if p.Width == 2 {
			*p = Cell{R: ' ', Width: 1, Pen: p.Pen, Stamp: p.Stamp}
		}
	}
}

func (t *Term) print(r rune, w int, alt bool) {
	if t.Lenient {
		return
	}
	if w == 0 {
		// combining: attach to the glyph just printed (the cursor may not
		// have advanced past it in the last column), else to the glyph
		// before the cursor
		if t.lastOK && t.lastY == t.CY && (t.lastX == t.CX || t.lastX+t.At(t.lastX, t.lastY).Width == t.CX || t.CX == t.W-1) {
			c := t.At(t.lastX, t.lastY)
			c.Comb = append(c.Comb, r)
			c.Stamp = t.Block
			return
		}
		x, y := t.CX, t.CY
		if !t.wrapPending {
			x--
		}
		if x < 0 {
			t.Unmodelled["combining mark at column 0"]++
			return
		}
		c := t.At(x, y)
		if c.Width == 0 && x > 0 {
			c = t.At(x-1, y)
		}
		c.Comb = append(c.Comb, r)
		c.Stamp = t.Block
		return
	}
	t.Printed++
	if t.wrapPending {
		if t.AutoWrap {
			t.CX = 0
			t.lineFeed()
		}
		t.wrapPending = false
	}
	if w == 2 && t.CX == t.W-1 {
		if t.AutoWrap && t.W > 1 {
			t.CX = 0
			t.lineFeed()
		} else {
			// cannot fit: real terminals differ; model a clipped glyph
			w = 1
			t.Unmodelled["wide glyph in the last column"]++
		}
	}
	t.blankHalf(t.CX, t.CY)
	*t.At(t.CX, t.CY) = Cell{R: r, Width: w, Pen: t.Pen, Stamp: t.Block, Alt: alt}
	if alt {
		t.At(t.CX, t.CY).AltB = t.altByte
	}
	t.lastX, t.lastY, t.lastOK = t.CX, t.CY, true
	if w == 2 {
		t.blankHalf(t.CX+1, t.CY)
		*t.At(t.CX+1, t.CY) = Cell{R: 0, Width: 0, Pen: t.Pen, Stamp: t.Block}
	}
	t.CX += w
	if t.CX >= t.W {
		t.CX = t.W - 1
		if t.AutoWrap {
			t.wrapPending = true
		}
	}
}

// ---- escape sequences ----

func (t *Term) escFinal(inter []byte, f byte) {
	if len(inter) == 0 {
		switch f {
		case '7':
			t.saved.cx, t.saved.cy, t.saved.pen, t.saved.ok = t.CX, t.CY, t.Pen, true
		case '8':
			if t.saved.ok {
				t.CX, t.CY, t.Pen = t.saved.cx, t.saved.cy, t.saved.pen
				if t.CX >= t.W {
					t.CX = t.W - 1
				}
				if t.CY >= t.H {
					t.CY = t.H - 1
				}
			}
			t.wrapPending = false
		case '=':
			t.KeypadApp = true
		case '>':
			t.KeypadApp = false
		case 'M':
			if t.CY > 0 {
				t.CY--
			}
		case 'c':
			t.Unmodelled["RIS"]++
		case '\\':
			t.errf("string terminator (ESC \\) outside a control string")
		default:
			t.Unmodelled["ESC "+string(f)]++
		}
		return
	}
	if len(inter) == 1 && (inter[0] == '(' || inter[0] == ')') {
		idx := 0
		if inter[0] == ')' {
			idx = 1
		}
		switch f {
		case 'B', '0', 'A', 'U', 'K':
			t.G[idx] = f
		default:
			t.errf("ESC %c %c designates an unknown character set", inter[0], f)
		}
		return
	}
	t.Unmodelled["ESC "+string(inter)+string(f)]++
}

// parseParams splits CSI parameters.  It returns the private marker, the
// parameters (each a list of colon-separated sub-parameters; -1 = omitted)
// and whether the bytes were well-formed numbers.
func (t *Term) parseParams() (marker byte, ps [][]int, ok bool) {
	p := t.params
	ok = true
	if len(p) > 0 && (p[0] == '<' || p[0] == '=' || p[0] == '>' || p[0] == '?') {
		marker = p[0]
		p = p[1:]
	}
	cur := []int{}
	val := -1
	flush := func() {
		cur = append(cur, val)
		val = -1
	}
	for _, b := range p {
		switch {
		case b >= '0' && b <= '9':
			if val < 0 {
				val = 0
			}
			val = val*10 + int(b-'0')
			if val > 1<<24 {
				ok = false
			}
		case b == ':':
			flush()
		case b == ';':
			flush()
			ps = append(ps, cur)
			cur = []int{}
		default:
			ok = false // a private marker in the middle of the parameters
		}
	}
	flush()
	ps = append(ps, cur)
	return
}

func arg(ps [][]int, i, def int) int {
	if i < len(ps) && len(ps[i]) > 0 && ps[i][0] >= 0 {
		if ps[i][0] == 0 && def == 1 {
			return 1
		}
		return ps[i][0]
	}
	return def
}

func (t *Term) csi(f byte) {
	if f != 'm' {
		t.lastOK = false
	}
	marker, ps, ok := t.parseParams()
	name := "CSI " + string(t.params) + string(t.inter) + string(f)
	if !ok {
		t.errf("%q: malformed parameters", name)
		return
	}
	for _, ib := range t.inter {
		switch ib {
		case ' ', '"', '$', '!', '\'':
		case '-':
			t.errf("%q: minus sign in a control sequence (negative parameter)", name)
			return
		case '%':
			t.errf("%q: '%%' in a control sequence (parameter-language residue)", name)
			return
		default:
			t.errf("%q: unexpected intermediate byte %q", name, ib)
			return
		}
	}
	if t.Lenient {
		return
	}
	if len(t.inter) > 0 {
		if string(t.inter) == " " && f == 'q' && marker == 0 {
			t.CursorStyle = arg(ps, 0, 0)
			return
		}
		t.Unmodelled["CSI "+string(t.inter)+string(f)]++
		return
	}
	if marker == '?' {
		switch f {
		case 'h', 'l':
			for _, p := range ps {
				if len(p) > 0 && p[0] >= 0 {
					t.decMode(p[0], f == 'h')
				}
			}
		case 'c':
			t.LinuxCursor = string(t.params)
		default:
			t.Unmodelled["CSI ? "+string(f)]++
		}
		return
	}
	if marker == '>' {
		t.Unmodelled["CSI > "+string(f)]++
		return
	}
	if marker != 0 {
		t.Unmodelled["CSI "+string(marker)+" "+string(f)]++
		return
	}
	switch f {
	case 'H', 'f':
		r, c := arg(ps, 0, 1), arg(ps, 1, 1)
		t.CY, t.CX = clamp(r-1, t.H), clamp(c-1, t.W)
		t.wrapPending = false
	case 'A':
		t.CY = clamp(t.CY-arg(ps, 0, 1), t.H)
		t.wrapPending = false
	case 'B':
		t.CY = clamp(t.CY+arg(ps, 0, 1), t.H)
		t.wrapPending = false
	case 'C':
		t.CX = clamp(t.CX+arg(ps, 0, 1), t.W)
		t.wrapPending = false
	case 'D':
		t.CX = clamp(t.CX-arg(ps, 0, 1), t.W)
		t.wrapPending = false
	case 'G':
		t.CX = clamp(arg(ps, 0, 1)-1, t.W)
		t.wrapPending = false
	case 'd':
		t.CY = clamp(arg(ps, 0, 1)-1, t.H)
		t.wrapPending = false
	case 'J':
		t.eraseDisplay(arg(ps, 0, 0))
	case 'K':
		t.eraseLine(arg(ps, 0, 0))
	case '@':
		t.insertChars(arg(ps, 0, 1))
	case 'P':
		t.Unmodelled["DCH"]++
	case 'm':
		t.sgr(ps)
	case 'h', 'l':
		for _, p := range ps {
			if len(p) > 0 && p[0] == 34 {
				t.Modes[-34] = f == 'h'
			} else if len(p) > 0 && p[0] == 4 {
				t.Modes[-4] = f == 'h'
			} else {
				t.Unmodelled["ANSI mode "+strconv.Itoa(arg([][]int{p}, 0, 0))]++
			}
		}
	case 'r':
		t.Unmodelled["DECSTBM"]++
		if len(t.params) != 0 {
			t.Unmodelled["DECSTBM with margins"]++
		}
	case 't':
		t.windowOp(ps)
	default:
		t.Unmodelled["CSI "+string(f)]++
	}
}

func clamp(v, n int) int {
	if v < 0 {
		return 0
	}
	if v > n-1 {
		return n - 1
	}
	return v
}

func (t *Term) blank() Cell { return Cell{R: ' ', Width: 1, Pen: Pen{Bg: t.Pen.Bg}, Stamp: -1} }

func (t *Term) eraseDisplay(mode int) {
	from, to := 0, t.W*t.H
	switch mode {
	case 0:
		from = t.CY*t.W + t.CX
	case 1:
		to = t.CY*t.W + t.CX + 1
	case 2, 3:
	default:
		t.Unmodelled["ED "+strconv.Itoa(mode)]++
		return
	}
	for i := from; i < to; i++ {
		t.cells[i] = t.blank()
	}
	t.wrapPending = false
}

func (t *Term) eraseLine(mode int) {
	from, to := 0, t.W
	switch mode {
	case 0:
		from = t.CX
	case 1:
		to = t.CX + 1
	case 2:
	default:
		return
	}
	for x := from; x < to; x++ {
		*t.At(x, t.CY) = t.blank()
	}
	t.wrapPending = false
}

func (t *Term) insertChars(n int) {
	row := t.cells[t.CY*t.W : (t.CY+1)*t.W]
	if n > t.W-t.CX {
		n = t.W - t.CX
	}
	t.blankHalf(t.CX, t.CY)
	copy(row[t.CX+n:], row[t.CX:t.W-n])
	for i := 0; i < n; i++ {
		row[t.CX+i] = t.blank()
	}
	// a wide glyph pushed half-way off the right edge disappears
	if last := &row[t.W-1]; last.Width == 2 {
		*last = Cell{R: ' ', Width: 1, Pen: last.Pen, Stamp: last.Stamp}
	}
	t.wrapPending = false
}

func (t *Term) decMode(n int, on bool) {
	t.Modes[n] = on
	switch n {
	case 7:
		t.AutoWrap = on
		if !on {
			t.wrapPending = false
		}
	case 25:
		t.CursorVisible = on
	case 47, 1047:
		t.switchScreen(on, false)
	case 1049:
		if on {
			t.saved.cx, t.saved.cy, t.saved.pen, t.saved.ok = t.CX, t.CY, t.Pen, true
		}
		t.switchScreen(on, true)
		if !on && t.saved.ok {
			t.CX, t.CY = clamp(t.saved.cx, t.W), clamp(t.saved.cy, t.H)
		}
	}
}

func (t *Term) switchScreen(on, clear bool) {
	if on == t.AltScreen {
		return
	}
	t.AltScreen = on
	other := t.alt
	if other == nil || len(other) != len(t.cells) {
		other = make([]Cell, len(t.cells))
		for i := range other {
			other[i] = Cell{R: ' ', Width: 1}
		}
	}
	t.alt = t.cells
	t.cells = other
	if on && clear {
		for i := range t.cells {
			t.cells[i] = Cell{R: ' ', Width: 1, Stamp: -1}
		}
	}
	t.wrapPending = false
}

func (t *Term) windowOp(ps [][]int) {
	switch arg(ps, 0, 0) {
	case 22:
		t.TitleStack = append(t.TitleStack, t.Title)
		t.WinOps = append(t.WinOps, "push-title")
	case 23:
		if n := len(t.TitleStack); n > 0 {
			t.Title = t.TitleStack[n-1]
			t.TitleStack = t.TitleStack[:n-1]
			t.WinOps = append(t.WinOps, "pop-title")
		} else {
			t.WinOps = append(t.WinOps, "pop-title-empty")
		}
	case 8:
		t.WinOps = append(t.WinOps, fmt.Sprintf("resize %dx%d", arg(ps, 2, 0), arg(ps, 1, 0)))
	default:
		t.Unmodelled["window op "+strconv.Itoa(arg(ps, 0, 0))]++
	}
}

// validXColor: the forms XParseColor accepts - #RGB with 1-4 hex digits per
// component, rgb:R/G/B, or a colour name.
func validXColor(s string) bool {
	isHex := func(x string) bool {
		if x == "" {
			return false
		}
		for _, c := range x {
			if !(c >= '0' && c <= '9' || c >= 'a' && c <= 'f' || c >= 'A' && c <= 'F') {
				return false
			}
		}
		return true
	}
	switch {
	case strings.HasPrefix(s, "#"):
		h := s[1:]
		return isHex(h) && (len(h) == 3 || len(h) == 6 || len(h) == 9 || len(h) == 12)
	case strings.HasPrefix(s, "rgb:"):
		parts := strings.Split(s[4:], "/")
		if len(parts) != 3 {
			return false
		}
		for _, p := range parts {
			if !isHex(p) || len(p) > 4 {
				return false
			}
		}
		return true
	case s == "":
		return false
	}
	for _, c := range s {
		if !(c >= 'a' && c <= 'z' || c >= 'A' && c <= 'Z' || c >= '0' && c <= '9' || c == ' ') {
			return false
		}
	}
	return true
}

func (t *Term) oscDone() {
	s := string(t.osc)
	num, rest := s, ""
	if i := strings.IndexByte(s, ';'); i >= 0 {
		num, rest = s[:i], s[i+1:]
	}
	n, err := strconv.Atoi(num)
	if err != nil {
		t.errf("OSC %q: selector is not a number", s)
		return
	}
	if t.Dec == nil && !utf8.ValidString(rest) {
		t.errf("OSC %q: payload is not valid UTF-8", s)
	}
	switch n {
	case 0, 2:
		t.Title = rest
		t.TitleSet = true
	case 8:
		i := strings.IndexByte(rest, ';')
		if i < 0 {
			t.errf("OSC 8 %q: missing parameter separator", rest)
			return
		}
		t.Pen.LinkID, t.Pen.Link = rest[:i], rest[i+1:]
		if t.Pen.Link == "" {
			t.Pen.LinkID = ""
		}
	case 12:
		if !validXColor(rest) {
			t.errf("OSC 12 %q: not a colour specification (#rgb.., rgb:r/g/b or a name)", rest)
		}
		t.CursorColor = rest
	case 112:
		t.CursorColor = ""
	case 52:
		t.Clipboard = append(t.Clipboard, rest)
	default:
		t.Unmodelled["OSC "+num]++
	}
}

func (t *Term) sgr(ps [][]int) {
	if len(ps) == 0 {
		ps = [][]int{{0}}
	}
	for i := 0; i < len(ps); i++ {
		p := ps[i]
		code := 0
		if len(p) > 0 && p[0] >= 0 {
			code = p[0]
		}
		switch {
		case code == 0:
			link, id := t.Pen.Link, t.Pen.LinkID
			t.Pen = Pen{Link: link, LinkID: id}
		case code == 1:
			t.Pen.Attr |= AttrBold
		case code == 2:
			t.Pen.Attr |= AttrDim
		case code == 3:
			t.Pen.Attr |= AttrItalic
		case code == 4:
			t.Pen.Ul = 1
			if len(p) > 1 && p[1] >= 0 {
				t.Pen.Ul = p[1]
				if p[1] > 5 {
					t.Unmodelled["SGR 4:"+strconv.Itoa(p[1])]++
				}
			}
		case code == 5 || code == 6:
			t.Pen.Attr |= AttrBlink
		case code == 7:
			t.Pen.Attr |= AttrReverse
		case code == 9:
			t.Pen.Attr |= AttrStrike
		case code == 10:
			t.PCFont = false
		case code == 11 || code == 12:
			t.PCFont = true
		case code == 21:
			t.Pen.Ul = 2
		case code == 22:
			t.Pen.Attr &^= AttrBold | AttrDim
		case code == 23:
			t.Pen.Attr &^= AttrItalic
		case code == 24:
			t.Pen.Ul = 0
		case code == 25:
			t.Pen.Attr &^= AttrBlink
		case code == 27:
			t.Pen.Attr &^= AttrReverse
		case code == 29:
			t.Pen.Attr &^= AttrStrike
		case code >= 30 && code <= 37:
			t.Pen.Fg = Color{ColPalette, code - 30}
		case code >= 40 && code <= 47:
			t.Pen.Bg = Color{ColPalette, code - 40}
		case code >= 90 && code <= 97:
			t.Pen.Fg = Color{ColPalette, code - 90 + 8}
		case code >= 100 && code <= 107:
			t.Pen.Bg = Color{ColPalette, code - 100 + 8}
		case code == 39:
			t.Pen.Fg = Color{}
		case code == 49:
			t.Pen.Bg = Color{}
		case code == 59:
			t.Pen.UlColor = Color{}
		case code == 38 || code == 48 || code == 58:
			var c Color
			var used int
			c, used = t.extColor(ps, i)
			if used < 0 {
				return
			}
			switch code {
			case 38:
				t.Pen.Fg = c
			case 48:
				t.Pen.Bg = c
			case 58:
				t.Pen.UlColor = c
			}
			i += used
		default:
			t.Unmodelled["SGR "+strconv.Itoa(code)]++
		}
	}
}

// extColor decodes 38/48/58 in both the colon and the semicolon form.
func (t *Term) extColor(ps [][]int, i int) (Color, int) {
	p := ps[i]
	if len(p) > 1 {
		// colon form: 38:5:n  38:2::r:g:b  38:2:r:g:b
		switch p[1] {
		case 5:
			if len(p) >= 3 && p[2] >= 0 && p[2] < 256 {
				return Color{ColPalette, p[2]}, 0
			}
		case 2:
			v := p[2:]
			if len(v) == 4 {
				v = v[1:] // colour-space id omitted or given
			}
			if len(v) == 3 && v[0] >= 0 && v[1] >= 0 && v[2] >= 0 && v[0] < 256 && v[1] < 256 && v[2] < 256 {
				return Color{ColRGB, v[0]<<16 | v[1]<<8 | v[2]}, 0
			}
		}
		t.errf("SGR %v: malformed extended colour", p)
		return Color{}, -1
	}
	// semicolon form
	get := func(k int) int {
		if i+k < len(ps) && len(ps[i+k]) == 1 {
			return ps[i+k][0]
		}
		return -1
	}
	switch get(1) {
	case 5:
		if n := get(2); n >= 0 && n < 256 {
			return Color{ColPalette, n}, 2
		}
	case 2:
		r, g, b := get(2), get(3), get(4)
		if r >= 0 && g >= 0 && b >= 0 && r < 256 && g < 256 && b < 256 {
			return Color{ColRGB, r<<16 | g<<8 | b}, 4
		}
	}
	t.errf("SGR %s: malformed extended colour", string(t.params))
	return Color{}, -1
}

// decGraphics is the DEC special graphics set for bytes 0x5f..0x7e.
var decGraphics = [32]rune{
	' ', '◆', '▒', '␉', '␌', '␍', '␊', '°', '±', '␤', '␋', '┘', '┐', '┌', '└', '┼',
	'⎺', '⎻', '─', '⎼', '⎽', '├', '┤', '┴', '┬', '│', '≤', '≥', 'π', '≠', '£', '·',
}
